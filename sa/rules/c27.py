"""C27 windowed and ordered window functions are computed per ordered partition — structural clauses."""
from __future__ import annotations

import ast

from .. import cfg as cfgmod
from .. import pat
from .. import deps as depsmod
from ..index import AnalysisError, dotted_name, unparse
from ..report import Relabel
from . import c09, c18

EXPLANATION = (
    "For the three window realisations (PandasModelBase._extend_step windowed branch, PolarsModel._extend_step, "
    "SQLModel.extend_to_near_sql): S1 consumption (def-use): the construct that defines the window depends on "
    "all of partition_by, order_by and reverse — Pandas groupby keys / sort_values(by, ascending) with the "
    "partition columns ahead of the order columns, Polars .over(partition) / sort(by, descending), SQL "
    "PARTITION BY / ORDER BY … DESC. S2 polarity of the direction flags (partial evaluation with the single "
    "unknown `column in reverse`; flags iterate the sort keys). S3 ordering of effects on the CFG: the sort "
    "precedes the windowed computation, Pandas captures the original positions from a clean frame before "
    "sorting and restores them before the results are re-attached (index-clean typestate of C18 on the whole "
    "step). S4 every produced term receives the window (SQL `+ window_term` for each computed term, Polars "
    ".over(...) unless literal/column/series, Pandas every store comes from the grouped frame). S5 the null "
    "partition is kept (groupby dropna=False). Not decided: the per-row values of each function. S6 fusion: the builder fuses two consecutive windowed extends into one node only when partition, the order *sequence*, reverse and the windowing mode are identical (the C06 merge precondition), so each term keeps the window it was declared with. S7 SQL merge: the guard of the extend-merge optimisation and the dependencies declared for each computed term include the partition and order columns, so a window never reads a key that the same SELECT redefines (inside OVER a name is the source column, not the alias)."
)


def _with_private_helpers(m, depth=3):
    """the method's node plus the private methods of its class it (transitively) calls on self"""
    nodes = [m.node]
    if m.cls is None:
        return nodes
    frontier = [m.node]
    for _d in range(depth):
        nxt = []
        for fn_ in frontier:
            for c in ast.walk(fn_):
                if isinstance(c, ast.Call) and isinstance(c.func, ast.Attribute) and isinstance(c.func.value, ast.Name) and c.func.value.id == "self" \
                        and c.func.attr.startswith("_"):
                    h = m.cls.find_method(c.func.attr)
                    if h is not None and h.node not in nodes:
                        nodes.append(h.node)
                        nxt.append(h.node)
        frontier = nxt
    return nodes


def _expand_helper_roots(m, roots, node_param: str, depth=2):
    """a value that comes out of self.<private helper>(node, …) depends on what the helper's result depends on: replace `call:<helper>` by the
    roots of the helper's returns, its node parameter renamed to the caller's"""
    out = set(roots)
    if m.cls is None or depth <= 0:
        return out
    for r in list(roots):
        if not r.startswith("call:"):
            continue
        h = m.cls.find_method(r[5:])
        if h is None or not r[5:].startswith("_") or h.node is m.node:
            continue
        gh = cfgmod.build(h.node)
        dh = depsmod.Deps(gh, h.params(), control=True)
        hp = [p_ for p_ in h.params() if p_ != "self"]
        for ret in gh.returns():
            if ret.stmt.value is None:
                continue
            rr = dh.roots_at(ret, ret.stmt.value) | dh.own_guard_roots(ret)
            rr = _expand_helper_roots(h, rr, node_param=hp[0] if hp else node_param, depth=depth - 1)
            for x in rr:
                if hp and (x == hp[0] or x.startswith(hp[0] + ".")):
                    out.add(node_param + x[len(hp[0]):])
                elif len(hp) > 1 and any(x == q or x.startswith(q + ".") for q in hp[1:]):
                    # other parameters: positional fields of the node handed over by the caller are unknown here; keep the call root only
                    out.add(x)
                else:
                    out.add(x)
    return out


def _calls(fnode, attr):
    return [c for c in ast.walk(fnode) if isinstance(c, ast.Call) and isinstance(c.func, ast.Attribute) and c.func.attr == attr]


def run(program, res, tier):
    res.rule("C27-S1", "window definition consumes partition_by, order_by and reverse")
    res.rule("C27-S2", "direction flags: polarity and alignment with the sort keys")
    res.rule("C27-S3", "sort before compute; positions captured from a clean frame and restored before re-attachment")
    res.rule("C27-S4", "every produced term is computed inside the window")
    res.rule("C27-S5", "null partition kept")
    res.rule("C27-S6", "two windowed extends are fused only when partition, order sequence, reverse and windowing are identical")
    from ..nodes import NodeModel
    from ..report import Relabel
    from . import c06
    c06._s2(program, NodeModel(program), Relabel(res, {"*": "C27-S6"}))
    res.rule("C27-S8", "whole-partition aggregators are rejected in ordered windows (SQL would compute a running aggregate)")
    er = program.module("expr_rep")
    contra = er.consts.get("fn_names_that_contradict_ordered_windowed_situation")
    if not isinstance(contra, ast.Set):
        raise AnalysisError("anchor vanished: expr_rep.fn_names_that_contradict_ordered_windowed_situation (set literal)")
    cset = {e.value for e in contra.elts if isinstance(e, ast.Constant)}
    # the list is consulted when the node is built
    ext_init = program.cls("view_representations", "ExtendNode").methods["__init__"]
    used = any("fn_names_that_contradict_ordered_windowed_situation" in unparse(n_) for n_ in ast.walk(ext_init.node) if isinstance(n_, ast.Compare))
    if not used:
        res.fail_at("C27-S8", ext_init, "contradiction-list-unused", "ExtendNode.__init__ no longer rejects the names of fn_names_that_contradict_ordered_windowed_situation in ordered windows")
    from .. import facts as _facts
    for nm in sorted(_facts.WHOLE_PARTITION_AGGREGATORS):
        if nm in cset:
            res.ok("C27-S8", f"`{nm}` (whole-partition aggregate) is rejected in an ordered window")
        else:
            res.fail("C27-S8", "expr_rep:fn_names_that_contradict_ordered_windowed_situation", f"ordered-window-accepts:{nm}",
                     f"`x.{nm}()` is accepted in extend(…, partition_by=…, order_by=…): Pandas computes it over the whole partition, SQL's default window frame "
                     f"makes it a running aggregate (x=[1,2,6] ordered: mean gives [3,3,3] on Pandas and [1,1.5,3] on SQLite) — the siblings sum/max/min/count are "
                     f"rejected for this reason", "data_algebra/expr_rep.py", getattr(contra, "lineno", 0))
    res.rule("C27-S7", "SQL: a windowed term is not merged into the SELECT that recomputes its partition / order keys")
    from . import c04
    c04._s1c(program, Relabel(res, {"*": "C27-S7"}))
    res.rule("C27-S9", "Pandas: rows are put in the declared order — the window sort key is partition_by + order_by, nothing else")
    from . import c10
    c10.window_sort_key_rule(program, Relabel(res, {"*": "C27-S9"}), rule="C27-S9")
    # ------------------------------------------------------------------ Pandas
    pe = program.method("pandas_base", "PandasModelBase", "_extend_step", inherited=False)
    res.analysed(pe)
    g = cfgmod.build(pe.node)
    d = depsmod.Deps(g, pe.params())
    gb = [(n, c) for n in g.stmt_nodes(("stmt",)) for c in ast.walk(n.stmt) if isinstance(c, ast.Call) and isinstance(c.func, ast.Attribute)
          and c.func.attr == "groupby" and c.args and depsmod.has_root(d.roots_at(n, c.args[0]), "op.partition_by")]
    if not gb:
        # the grouping may sit in a helper of the model that is handed op.partition_by
        pbc = program.cls("pandas_base", "PandasModelBase")
        for n in g.stmt_nodes(("stmt",)):
            for c in ast.walk(n.stmt):
                if isinstance(c, ast.Call) and isinstance(c.func, ast.Attribute) and isinstance(c.func.value, ast.Name) and c.func.value.id == "self" \
                        and any(depsmod.has_root(d.roots_at(n, a), "op.partition_by") for a in list(c.args) + [k.value for k in c.keywords]):
                    h = pbc.find_method(c.func.attr)
                    if h is not None and any(isinstance(x, ast.Call) and isinstance(x.func, ast.Attribute) and x.func.attr == "groupby" for x in ast.walk(h.node)):
                        gb.append((n, c))
    if gb:
        res.ok("C27-S1", "Pandas: the windowed computation groups by op.partition_by")
    else:
        res.fail_at("C27-S1", pe, "pandas-partition", "no groupby in the windowed branch derives its keys from op.partition_by: window functions would span partitions")
    sorts = [(n, c) for n in g.stmt_nodes(("stmt",)) for c in _calls(n.stmt, "sort_values")]
    main_sort = None
    restore = None
    for (n, c) in sorts:
        kws = {kw.arg: kw.value for kw in c.keywords}
        by = kws.get("by")
        if by is None:
            continue
        if "_data_algebra_orig_index" in unparse(by):
            restore = (n, c)
        else:
            main_sort = (n, c, kws)
    if main_sort is None:
        raise AnalysisError("Pandas _extend_step: window sort not found")
    (ns, cs, kws) = main_sort
    by_roots = d.roots_at(ns, kws["by"])
    asc = kws.get("ascending")
    # one stable pass per key (`for key, direction in zip(<keys>, <directions>)`): the two sequences have to be walked in step — the same base sequence,
    # both reversed or neither — or each key is sorted with another key's direction
    multipass = None
    for b_, _l in g.lexical_guards(ns):
        if isinstance(b_.stmt, ast.For) and isinstance(b_.stmt.iter, ast.Call) and dotted_name(b_.stmt.iter.func) == "zip" and len(b_.stmt.iter.args) == 2:
            multipass = b_.stmt
    if multipass is not None:
        def strip(e):
            rev = 0
            while isinstance(e, ast.Call) and dotted_name(e.func) in ("reversed", "list", "tuple") and e.args:
                rev += 1 if dotted_name(e.func) == "reversed" else 0
                e = e.args[0]
            if isinstance(e, ast.Subscript) and unparse(e.slice) == "::-1":
                rev, e = rev + 1, e.value
            return rev % 2, e
        (ra, ea), (rb, eb) = strip(multipass.iter.args[0]), strip(multipass.iter.args[1])

        def base_seq(e):
            # a list built by a comprehension over a sequence is aligned with that sequence
            if isinstance(e, ast.Name):
                defs_ = [a_.value for a_ in ast.walk(pe.node) if isinstance(a_, ast.Assign) and len(a_.targets) == 1 and isinstance(a_.targets[0], ast.Name) and a_.targets[0].id == e.id]
                if len(defs_) == 1 and isinstance(defs_[0], ast.ListComp):
                    r_, inner = strip(defs_[0].generators[0].iter)
                    return r_, unparse(inner)
            return 0, unparse(e)
        (xa, sa_), (xb, sb_) = base_seq(ea), base_seq(eb)
        if sa_ == sb_ and (ra + xa) % 2 == (rb + xb) % 2:
            res.ok("C27-S1", f"Pandas: the per-key sort passes walk keys and directions in step (`{unparse(multipass.iter)}`)")
        else:
            res.fail_at("C27-S1", pe, "pandas-sort-direction-misaligned",
                        f"`for … in {unparse(multipass.iter)}` pairs the keys and their directions out of step (one side reversed, or built over another sequence): with "
                        f"order_by=[o1, o2], reverse=[o2] the column o1 is sorted descending and o2 ascending — cumsum, row_number, shift follow the wrong order on Pandas", multipass)
    miss = depsmod.missing_roots(by_roots, ["op.order_by"] if multipass is not None else ["op.partition_by", "op.order_by"])
    if miss:
        res.fail_at("C27-S1", pe, f"pandas-sort-keys:{','.join(miss)}", f"the window sort keys `{unparse(kws['by'])}` do not derive from {miss}", cs)
    else:
        res.ok("C27-S1", "Pandas: window sort keys derive from partition_by and order_by")
    if asc is None or not depsmod.has_root(d.roots_at(ns, asc), "op.reverse"):
        res.fail_at("C27-S1", pe, "pandas-sort-direction", "the window sort's `ascending` does not derive from op.reverse: reversed columns are sorted ascending", cs)
    else:
        res.ok("C27-S1", "Pandas: window sort direction derives from op.reverse")
    # the sort may be left out when there is nothing to sort by; a test that looks at the *rows* (already in order?) decides from the data whether the
    # window follows op.reverse, unless it takes the direction into account itself
    frames = {"res"} | {t.id for st in ast.walk(pe.node) if isinstance(st, ast.Assign) for t in st.targets if isinstance(t, ast.Name)
                        and any(isinstance(c_, ast.Call) and isinstance(c_.func, ast.Attribute) and c_.func.attr in ("clean_copy", "sort_values", "copy", "reset_index")
                                for c_ in ast.walk(st.value))}
    for b_, _l in g.lexical_guards(ns):
        if not isinstance(b_.stmt, ast.If):
            continue
        # ... nor may the functions of the step decide: which of them read the row order in the Pandas realisation is not what any of the library's
        # name lists says (`_count()` is a running count, yet it is not among the names that *require* an order)
        if depsmod.has_root(d.cond_roots(b_), "op.ops"):
            res.fail_at("C27-S1", pe, "pandas-sort-skipped-by-function-list",
                        f"the window sort runs only if `{unparse(b_.cond)[:80]}`, a test of the step's functions: an ordered window whose functions are not on that list "
                        f"(_count(), a running count) is computed in the incoming row order — Pandas then disagrees with SQL's OVER (… ORDER BY …) and depends on the row order", b_.cond)
            continue
        if depsmod.has_root(d.cond_roots(b_), "op.sources"):
            res.fail_at("C27-S1", pe, "pandas-sort-skipped-on-source-test",
                        f"the window sort runs only if `{unparse(b_.cond)[:80]}`, a test of the step below: what an order_rows further down left behind is not the window's "
                        f"order (fewer columns, other directions, ties in input order), so the window depends on the incoming row order", b_.cond)
            continue
        reads_rows = [x.id for x in ast.walk(b_.cond) if isinstance(x, ast.Name) and x.id in frames]
        if not reads_rows:
            continue
        if depsmod.has_root(d.cond_roots(b_), "op.reverse"):
            res.ok("C27-S1", f"Pandas: `{unparse(b_.cond)[:60]}` looks at the rows and at the directions before leaving the window sort out")
        else:
            res.fail_at("C27-S1", pe, "pandas-sort-skipped-on-data-test",
                        f"the window sort runs only if `{unparse(b_.cond)[:70]}`, a test of the rows (`{reads_rows[0]}`) that does not know op.reverse: rows that already come in "
                        f"ascending order are not sorted although the window asks for descending, so cumsum / shift / row_number depend on the incoming row order", b_.cond)
    # partition columns ahead of the order columns: the key list is seeded from partition_by, order_by appended
    # the key list, by role: the local seeded from op.partition_by that is appended to inside `for c in op.order_by`
    klist = None
    for nd in g.stmt_nodes(("stmt",)):
        for (_c, e) in pat.find("_K.append(_C)", nd.stmt):
            if any(isinstance(b.stmt, ast.For) and unparse(b.cond) == "op.order_by" and isinstance(b.stmt.target, ast.Name) and b.stmt.target.id == e["_C"]
                   for b, _l in g.lexical_guards(nd)):
                klist = e["_K"]
    seeds = [n for n in g.stmt_nodes(("stmt",)) if isinstance(n.stmt, ast.Assign) and isinstance(n.stmt.targets[0], ast.Name) and n.stmt.targets[0].id == klist]
    appends = [n for n in g.stmt_nodes(("stmt",)) if klist is not None and any(e["_K"] == klist for (_c, e) in pat.find("_K.append(_C)", n.stmt))
               and any(isinstance(b.stmt, ast.For) and "op.order_by" in unparse(b.cond) for b, _l in g.lexical_guards(n))]
    if seeds and "op.partition_by" in unparse(seeds[0].stmt.value) and appends and g.dominates(seeds[0].id, appends[0].id):
        res.ok("C27-S1", "Pandas: partition columns precede order columns in the sort key")
    else:
        res.fail_at("C27-S1", pe, "pandas-key-order", "the sort key list is not partition columns followed by order columns")
    # S3 ordering
    cap = [n for n in g.stmt_nodes(("stmt",)) if isinstance(n.stmt, ast.Assign) and isinstance(n.stmt.value, ast.Attribute) and n.stmt.value.attr == "index"]
    gbn = gb[0][0] if gb else None
    # the working frame is the one whose positions are captured (`F[...] = F.index`); results are stored into it under the
    # loop variable of `for k, opk in op.ops.items()`
    wf = cap[0].stmt.value.value.id if cap and isinstance(cap[0].stmt.value.value, ast.Name) else "subframe"
    opkeys = {l.target.elts[0].id for l in ast.walk(pe.node) if isinstance(l, ast.For) and unparse(l.iter) == "op.ops.items()"
              and isinstance(l.target, ast.Tuple) and isinstance(l.target.elts[0], ast.Name)}
    stores = [n for n in g.stmt_nodes(("stmt",)) if isinstance(n.stmt, ast.Assign) and isinstance(n.stmt.targets[0], ast.Subscript)
              and unparse(n.stmt.targets[0].value) == wf and unparse(n.stmt.targets[0].slice) in opkeys]
    attach = [n for n in g.stmt_nodes(("stmt",)) if any(e["_F"] == wf for (_c, e) in pat.find("self.add_data_frame_columns_to_data_frame_(_R, _F)", n.stmt))]
    if cap and ns.id in g.reachable_from(cap[0].id) and cap[0].id not in g.reachable_from(ns.id):
        res.ok("C27-S3", "Pandas: original positions are captured before the sort")
    else:
        res.fail_at("C27-S3", pe, "pandas-capture-order", "row positions are not captured before the window sort: the original order cannot be restored")
    if gbn is not None and gbn.id in g.reachable_from(ns.id) and ns.id not in g.reachable_from(gbn.id):
        res.ok("C27-S3", "Pandas: the sort precedes the grouped computation")
    else:
        res.fail_at("C27-S3", pe, "pandas-sort-after-compute", "the window sort does not precede the grouped computation: cumulative functions run in input order")
    if restore and stores and attach and all(restore[0].id in g.reachable_from(s.id) for s in stores) and attach[0].id in g.reachable_from(restore[0].id) \
            and restore[0].id not in g.reachable_from(attach[0].id):
        res.ok("C27-S3", "Pandas: original order restored after the computations and before re-attachment")
    else:
        res.fail_at("C27-S3", pe, "pandas-restore-order", "the results are not re-sorted to the original positions between computing and re-attaching them")
    c18.typestate_rule(program, Relabel(res, {"*": "C27-S3"}), rule="C27-S3")
    c18.position_primitives_rule(program, Relabel(res, {"*": "C27-S3"}), rule="C27-S3")
    c18.order_sensitive_functions_rule(program, Relabel(res, {"*": "C27-S3"}), rule="C27-S3")
    # S4 every store comes from the grouped frame
    if not stores:
        raise AnalysisError("Pandas _extend_step: windowed result stores not found")
    for n in stores:
        roots = d.roots_at(n, n.stmt.value)
        if "call:groupby" in roots:
            res.ok("C27-S4", f"Pandas: `{unparse(n.stmt)[:50]}` computed on the grouped frame")
        else:
            res.fail_at("C27-S4", pe, f"pandas-ungrouped-term:{unparse(n.stmt.value)[:30]}", f"`{unparse(n.stmt)[:70]}` is computed outside the partition grouping", n.stmt)
    # ------------------------------------------------------------------ Polars
    pl = program.method("polars_model", "PolarsModel", "_extend_step", inherited=False)
    res.analysed(pl)
    g2 = cfgmod.build(pl.node)
    d2 = depsmod.Deps(g2, pl.params())
    overs = [(n, c) for n in g2.stmt_nodes(("stmt",)) for c in _calls(n.stmt, "over")]
    if overs and all(depsmod.has_root(d2.roots_at(n, c.args[0]), "op.partition_by") for n, c in overs):
        res.ok("C27-S1", "Polars: .over(partition) derives from op.partition_by")
    else:
        res.fail_at("C27-S1", pl, "polars-partition", "no .over(...) derives from op.partition_by")
    for (n, c) in overs:
        guards = " ".join(unparse(b.cond) for b, _l in g2.lexical_guards(n))
        # decided on the shape of the condition, not on its text: a conjunction of `op.windowed_situation` and negated `<term>.is_*` kind tests;
        # any further conjunct takes .over(partition) away from some windowed terms, which are then computed over the whole table
        conj = []
        for b, _l in g2.lexical_guards(n):
            if isinstance(b.stmt, ast.If):
                conj.extend(b.cond.values if isinstance(b.cond, ast.BoolOp) and isinstance(b.cond.op, ast.And) else [b.cond])

        def _kind_test(e):
            if isinstance(e, ast.UnaryOp) and isinstance(e.op, ast.Not):
                atoms = e.operand.values if isinstance(e.operand, ast.BoolOp) and isinstance(e.operand.op, ast.Or) else [e.operand]
                return all(isinstance(a_, ast.Attribute) and a_.attr.startswith("is_") for a_ in atoms)
            return False
        foreign_c = [e for e in conj if not (unparse(e) == "op.windowed_situation" or _kind_test(e))]
        if "op.windowed_situation" in guards and "is_literal" in guards and foreign_c:
            res.fail_at("C27-S4", pl, "polars-over-narrowed",
                        f".over(partition) is applied only if also `{unparse(foreign_c[0])[:70]}`: a windowed term for which that is false is computed over the whole table "
                        f"instead of its partition", foreign_c[0])
        elif "op.windowed_situation" in guards and "is_literal" in guards:
            res.ok("C27-S4", "Polars: every non-literal/column term of a windowed extend gets .over(partition)")
        else:
            res.fail_at("C27-S4", pl, "polars-over-conditional", f".over(...) is applied under `{guards[:80]}`", c)
    psorts = [(n, c) for n in g2.stmt_nodes(("stmt",)) for c in _calls(n.stmt, "sort")]
    if not psorts:
        res.fail_at("C27-S1", pl, "polars-no-sort", "Polars extend never sorts by order_by")
    else:
        (n, c) = psorts[0]
        kws = {kw.arg: kw.value for kw in c.keywords}
        if "by" in kws and depsmod.has_root(d2.roots_at(n, kws["by"]), "op.order_by") and "descending" in kws \
                and depsmod.has_root(d2.roots_at(n, kws["descending"]), "op.reverse"):
            res.ok("C27-S1", "Polars: sort(by=order_by, descending from reverse)")
        else:
            res.fail_at("C27-S1", pl, "polars-sort", f"`{unparse(c)[:70]}` does not sort by op.order_by with directions from op.reverse", c)
        wc = [m for m in g2.stmt_nodes(("stmt",)) if "with_columns(produced_columns)" in unparse(m.stmt)]
        if wc and wc[0].id in g2.reachable_from(n.id) and n.id not in g2.reachable_from(wc[0].id):
            res.ok("C27-S3", "Polars: the sort precedes with_columns(produced terms)")
        else:
            res.fail_at("C27-S3", pl, "polars-sort-after-compute", "the Polars sort does not precede the windowed computation")
        # the sort may be left out only when there is nothing to sort by: every condition it runs under is decided by op.order_by alone.  A test that
        # looks at the step below (already sorted by an order_rows?), at the functions or at the rows makes the window depend on the incoming row order
        lg = [b for b, _l in g2.lexical_guards(n)]
        guards = " ".join(unparse(b.cond) for b in lg)
        foreign = None
        for b in lg:
            extra = [r for r in d2.cond_roots(b) if not (r == "op.order_by" or r.startswith("op.order_by.") or r == "op"
                                                         or r in ("call:len", "call:list", "call:tuple", "call:set", "call:bool"))]
            if extra:
                foreign = (b, extra)
        if foreign is not None:
            res.fail_at("C27-S3", pl, "polars-sort-skipped-on-foreign-test",
                        f"the Polars window sort runs only if `{unparse(foreign[0].cond)[:80]}`, which also depends on {sorted(foreign[1])[:4]}: whenever that test lets an ordered window through "
                        f"unsorted (an order_rows below that sorts by fewer columns, other directions, or whose order a later step does not keep), shift / cumsum / first / last "
                        f"are computed in the incoming row order", foreign[0].cond)
        elif lg and all(depsmod.has_root(d2.cond_roots(b), "op.order_by") for b in lg):
            res.ok("C27-S3", "Polars: the window sort is guarded by op.order_by alone (left out only when there is nothing to sort by)")
        else:
            res.fail_at("C27-S3", pl, "polars-sort-guard", f"the Polars sort runs under `{guards}`")
    # ------------------------------------------------------------------ SQL
    sq = program.method("sql_model", "SQLModel", "extend_to_near_sql", inherited=False)
    res.analysed(sq)
    g3 = cfgmod.build(sq.node)
    d3 = depsmod.Deps(g3, sq.params())
    tstores = [n for n in g3.stmt_nodes(("stmt",)) if isinstance(n.stmt, ast.Assign) and pat.match("_T[_CI] = __V", n.stmt) is not None
               and any(isinstance(b.stmt, ast.For) and "subops" in unparse(b.cond) for b, _l in g3.lexical_guards(n))
               and "expr_to_sql" in unparse(n.stmt.value)]
    if not tstores:
        raise AnalysisError("extend_to_near_sql: computed term stores not found")
    for n in tstores:
        v = n.stmt.value
        txt = unparse(v)
        roots = d3.roots_at(n, v)
        if isinstance(v, ast.BinOp) and isinstance(v.op, ast.Add) and isinstance(v.right, ast.Name) and v.right.id not in sq.params():
            res.ok("C27-S4", "SQL: every computed term is `expr + window_term`")
        else:
            res.fail_at("C27-S4", sq, "sql-term-without-window", f"`{unparse(n.stmt)[:70]}` does not append the window clause", n.stmt)
        roots = _expand_helper_roots(sq, roots, node_param="extend_node")
        miss = depsmod.missing_roots(roots, ["extend_node.partition_by", "extend_node.order_by", "extend_node.reverse"])
        if miss:
            res.fail_at("C27-S1", sq, f"sql-window-lacks:{','.join(miss)}", f"the window clause does not depend on {miss}", n.stmt)
        else:
            res.ok("C27-S1", "SQL: window clause depends on partition_by, order_by and reverse")
    txt = "\n".join(unparse(n_) for n_ in _with_private_helpers(sq))
    # the text of the clause is assembled in source order inside one function: compare positions within the function that has both
    pi = oi = -1
    for n_ in _with_private_helpers(sq):
        t_ = unparse(n_)
        if "'PARTITION BY '" in t_ and "'ORDER BY '" in t_:
            pi, oi = t_.find("'PARTITION BY '"), t_.find("'ORDER BY '")
    if 0 <= pi < oi:
        res.ok("C27-S1", "SQL: OVER ( PARTITION BY … ORDER BY … ) in that order")
    else:
        res.fail_at("C27-S1", sq, "sql-window-shape", "the OVER clause is not PARTITION BY followed by ORDER BY")
    # the loop covers every selected op
    loops = [b for n in tstores for b, _l in g3.lexical_guards(n) if isinstance(b.stmt, ast.For)]
    if loops and unparse(loops[0].cond) == "subops.items()":
        res.ok("C27-S4", "SQL: the loop covers every selected op")
    # ------------------------------------------------------------------ S2 / S5
    c18.polarity_rule(program, Relabel(res, {"*": "C27-S2"}), rule="C27-S2", windows=True)
    try:
        c09._s2(program, Relabel(res, {"*": "C27-S5"}))
    except AnalysisError:
        if not res.findings:
            raise
