"""C15 results do not depend on how tables and columns are named — naming-hygiene clauses."""
from __future__ import annotations

import ast
from typing import Dict, List, Optional, Set, Tuple

from .. import cfg as cfgmod
from .. import deps as depsmod
from ..index import AnalysisError, dotted_name, unparse

EXPLANATION = (
    "S1 internal-name inventory: every name the system itself puts into a namespace it shares with the user — a column "
    "stored, aliased or suffixed under a constant / generated name in a Pandas or Polars step (frame[K] = …, "
    ".alias(K), suffix= / suffixes=, rename keys), and every generated view / alias name that the SQL generator "
    "quotes as an identifier — is enumerated from the source. A site holds when the function makes the name fresh "
    "against the user's names (a membership test of that name against the columns / tables at hand, guarding a raise "
    "or a re-generation). A site without such a guard is a collision by construction: a user column or table of that "
    "name is overwritten, dropped or captured (each listed site was reproduced against the real code where the step "
    "runs in this environment). S2 no capture by pattern: executor steps select columns for removal, overwrite or "
    "projection by exact names only — a test on the *shape* of a column name (endswith / startswith / substring / "
    "regular expression over a column-name variable) takes user columns that merely look like internal ones. "
    "S3 internal names of one step are pairwise distinct (two temporaries may not share a name). "
    "Not decided: invariance of the data under renaming (run-time), names reserved by the engines themselves. S4 the automatic table keys of the data spaces (da_temp_<n>) are tested, after their last assignment and on every path, for absence from the namespace the store writes into: the space's own binding for a store, the database's tables (table_exists) for a table write."
)

STEP_MODULES = ("pandas_base", "pandas_model", "polars_model", "cdata")
SQL_MODULES = ("sql_model", "view_representations", "SQLite", "PostgreSQL", "MySQL", "BigQuery", "SparkSQL", "near_sql")


def _const_prefix(e: ast.AST) -> Optional[str]:
    """'abc' -> 'abc';  'abc' + x / f'abc{x}' -> 'abc<n>';  x + 'abc' / f'{x}abc' -> '<col>abc'"""
    if isinstance(e, ast.Constant) and isinstance(e.value, str):
        return e.value
    if isinstance(e, ast.BinOp) and isinstance(e.op, ast.Add):
        l, r = e.left, e.right
        while isinstance(l, ast.BinOp) and isinstance(l.op, ast.Add):
            l = l.left
        if isinstance(l, ast.Constant) and isinstance(l.value, str) and l.value:
            return l.value + "<n>"
        if isinstance(r, ast.Constant) and isinstance(r.value, str) and r.value:
            return "<col>" + r.value
    if isinstance(e, ast.JoinedStr) and e.values:
        first, last = e.values[0], e.values[-1]
        if isinstance(first, ast.Constant) and str(first.value):
            return str(first.value) + "<n>"
        if isinstance(last, ast.Constant) and str(last.value):
            return "<col>" + str(last.value)
    return None


class Site:
    def __init__(self, backend, func, pattern, node, how):
        self.backend, self.func, self.pattern, self.node, self.how = backend, func, pattern, node, how


def _local_name_patterns(fnode, module) -> Dict[str, List[str]]:
    """local / module variable -> internal-name patterns it may hold"""
    out: Dict[str, List[str]] = {}
    for k, v in module.consts.items():
        p = _const_prefix(v)
        if p is not None and isinstance(v, ast.Constant):
            out.setdefault(k, []).append(p)
    for st in ast.walk(fnode):
        if isinstance(st, ast.Assign) and len(st.targets) == 1 and isinstance(st.targets[0], ast.Name):
            p = _const_prefix(st.value)
            if p is not None:
                out.setdefault(st.targets[0].id, []).append(p)
    return out


def _patterns_of(e: ast.AST, env: Dict[str, List[str]]) -> List[str]:
    p = _const_prefix(e)
    if p is not None:
        return [p]
    if isinstance(e, ast.Name):
        return env.get(e.id, [])
    return []


def _dict_vars(fnode) -> Set[str]:
    defs: Dict[str, List[ast.AST]] = {}
    for st in ast.walk(fnode):
        if isinstance(st, ast.Assign) and len(st.targets) == 1 and isinstance(st.targets[0], ast.Name):
            defs.setdefault(st.targets[0].id, []).append(st.value)
        elif isinstance(st, ast.AnnAssign) and isinstance(st.target, ast.Name) and st.value is not None:
            defs.setdefault(st.target.id, []).append(st.value)
    out = set()
    for k, vs in defs.items():
        if all(isinstance(v, (ast.Dict, ast.DictComp)) or (isinstance(v, ast.Call) and (dotted_name(v.func) or "").split(".")[-1] in ("dict", "OrderedDict", "defaultdict"))
               for v in vs):
            out.add(k)
    return out


def _executor_sites(program) -> List[Site]:
    sites: List[Site] = []
    for mname in STEP_MODULES:
        if mname not in program.modules:
            continue
        mod = program.modules[mname]
        backend = "polars" if "polars" in mname else "pandas"
        for f in program.all_functions():
            if f.module is not mod or f.parent is not None:
                continue
            env = _local_name_patterns(f.node, mod)
            dict_vars = _dict_vars(f.node)
            for node in ast.walk(f.node):
                # frame[K] = ...
                if isinstance(node, ast.Assign) and len(node.targets) == 1 and isinstance(node.targets[0], ast.Subscript) \
                        and isinstance(node.targets[0].value, ast.Name):
                    tv = node.targets[0].value.id
                    if tv in dict_vars:
                        continue  # a python dict (every definition is a dict display / constructor), not a frame
                    for p in _patterns_of(node.targets[0].slice, env):
                        sites.append(Site(backend, f, p, node, f"{tv}[…] = …"))
                if isinstance(node, ast.Call) and isinstance(node.func, ast.Attribute):
                    if node.func.attr == "alias" and node.args:
                        for p in _patterns_of(node.args[0], env):
                            sites.append(Site(backend, f, p, node, ".alias(…)"))
                    for kw in node.keywords:
                        if kw.arg == "suffix":
                            for p in _patterns_of(kw.value, env):
                                sites.append(Site(backend, f, "<col>" + p if not p.startswith("<col>") else p, node, "suffix="))
                        if kw.arg == "suffixes" and isinstance(kw.value, ast.Tuple):
                            for el in kw.value.elts:
                                for p in _patterns_of(el, env):
                                    if p:
                                        sites.append(Site(backend, f, "<col>" + p if not p.startswith("<col>") else p, node, "suffixes="))
    return sites


def _sql_sites(program) -> List[Site]:
    sites: List[Site] = []
    for mname in SQL_MODULES:
        if mname not in program.modules:
            continue
        mod = program.modules[mname]
        for f in program.all_functions():
            if f.module is not mod or f.parent is not None:
                continue
            env = _local_name_patterns(f.node, mod)
            # default parameter values that become identifiers
            a = f.node.args
            for p, d in zip(a.kwonlyargs, a.kw_defaults):
                if d is not None and isinstance(d, ast.Constant) and isinstance(d.value, str):
                    env.setdefault(p.arg, []).append(d.value)
            seen = set()
            for node in ast.walk(f.node):
                # names that can become common-table-expression names: NearSQL…(quoted_query_name=quote_identifier(X)).
                # (aliases of derived tables and join sources are scope-local: a user table of the same name is not captured)
                if isinstance(node, ast.Call) and (dotted_name(node.func) or "").split(".")[-1].startswith("NearSQL"):
                    for kw in node.keywords:
                        if kw.arg != "quoted_query_name":
                            continue
                        v = kw.value
                        arg = v.args[0] if isinstance(v, ast.Call) and v.args and (
                            (isinstance(v.func, ast.Attribute) and v.func.attr == "quote_identifier")) else v
                        for p in _patterns_of(arg, env):
                            if p.startswith("<col>") or p in seen:
                                continue
                            seen.add(p)
                            sites.append(Site("sql", f, p, node, "quoted_query_name="))
    return sites


def _guarded(site: Site) -> bool:
    """the function tests this very name against the user's columns / tables and raises or re-generates"""
    names = {site.pattern, site.pattern.replace("<n>", "").replace("<col>", "")}
    var_names = set()
    for st in ast.walk(site.func.node):
        if isinstance(st, ast.Assign) and len(st.targets) == 1 and isinstance(st.targets[0], ast.Name) and _const_prefix(st.value) == site.pattern:
            var_names.add(st.targets[0].id)
    for n in ast.walk(site.func.node):
        if isinstance(n, (ast.If, ast.While)) and isinstance(n.test, ast.Compare) and len(n.test.ops) == 1 and isinstance(n.test.ops[0], (ast.In, ast.NotIn)):
            l = n.test.left
            is_name = (isinstance(l, ast.Constant) and l.value in names) or (isinstance(l, ast.Name) and l.id in var_names) \
                or (_const_prefix(l) == site.pattern)
            coll = unparse(n.test.comparators[0])
            if is_name and any(w in coll for w in ("columns", "column_names", "get_tables", "tables", "names", "have")):
                acts = any(isinstance(b, ast.Raise) for b in ast.walk(n)) or isinstance(n, ast.While) or any(
                    isinstance(b, ast.Assign) and isinstance(b.targets[0], ast.Name) and b.targets[0].id in var_names for b in ast.walk(n))
                if acts:
                    return True
    return False


def _numbered_from_id_source(site: Site) -> bool:
    """the name is built as <constant prefix> + str(temp_id_source[0]) in this function"""
    for st in ast.walk(site.func.node):
        if isinstance(st, ast.Assign) and _const_prefix(st.value) == site.pattern and "temp_id_source" in unparse(st.value):
            return True
    return False


def _sql_numbering_is_fresh(program):
    """generated step names are `<prefix>_<n>` with n from the conversion's id source; they are fresh against the pipeline's tables when
    SQLModel.to_sql starts that source above every number a table name ends in (the start value depends on ops.get_tables()).
    Returns a predicate over step-name patterns: does a table called `<that prefix>_<number>` raise the start value?  The table names that do
    are those the guarding regular expression matches; the expression is taken from the source (a literal, or a module-level re.compile) and
    evaluated here on a sample name — a regular expression that lists step words protects only the words it lists"""
    import re as _re
    ts = program.method("sql_model", "SQLModel", "to_sql", inherited=False)
    mod = program.module("sql_model")
    g = cfgmod.build(ts.node)
    d = depsmod.Deps(g, ts.params(), control=True)
    for n in g.stmt_nodes(("stmt",)):
        st = n.stmt
        if isinstance(st, ast.Assign) and len(st.targets) == 1 and isinstance(st.targets[0], ast.Subscript) and unparse(st.targets[0].value) == "temp_id_source":
            roots = d.roots_at(n, st.value) | d.own_guard_roots(n)
            if not ("call:get_tables" in roots and any(isinstance(c, ast.Call) and dotted_name(c.func) == "max" for c in ast.walk(st.value))):
                continue
            # the regular expression(s) whose match result guards / feeds the assignment
            patterns = []
            for c in ast.walk(ts.node):
                if isinstance(c, ast.Call) and isinstance(c.func, ast.Attribute) and c.func.attr in ("search", "match", "fullmatch"):
                    how = c.func.attr
                    if dotted_name(c.func.value) == "re" and c.args and isinstance(c.args[0], ast.Constant):
                        patterns.append((how, c.args[0].value))
                    elif isinstance(c.func.value, ast.Name) and c.func.value.id in mod.consts:
                        k = mod.consts[c.func.value.id]
                        if isinstance(k, ast.Call) and dotted_name(k.func) == "re.compile" and k.args:
                            txt = _const_str(k.args[0])
                            if txt is not None:
                                patterns.append((how, txt))
            if not patterns:
                return lambda pattern: True  # no name filter at all: every table counts
            compiled = []
            for how, txt in patterns:
                try:
                    compiled.append((how, _re.compile(txt)))
                except _re.error:
                    return lambda pattern: False

            def protects(pattern, compiled=compiled):
                sample = pattern.replace("<n>", "7")
                return all(getattr(rx, how)(sample) is not None for how, rx in compiled)
            return protects
    return lambda pattern: False


def _const_str(e):
    """the text of a string literal, also one split over adjacent literals / concatenated with +"""
    if isinstance(e, ast.Constant) and isinstance(e.value, str):
        return e.value
    if isinstance(e, ast.BinOp) and isinstance(e.op, ast.Add):
        a, b = _const_str(e.left), _const_str(e.right)
        return a + b if a is not None and b is not None else None
    return None


def _s1(program, res):
    ex = _executor_sites(program)
    sq = _sql_sites(program)
    sql_fresh = _sql_numbering_is_fresh(program)
    seen = set()
    n_ex = n_sql = 0
    for s in ex + sq:
        key = (s.backend, s.func.where(), s.pattern)
        if key in seen:
            continue
        seen.add(key)
        res.analysed(s.func)
        if s.backend == "sql":
            n_sql += 1
        else:
            n_ex += 1
        if _guarded(s):
            res.ok("C15-S1", f"{s.func.qualname}: internal name {s.pattern!r} ({s.how}) is made fresh against the user's names")
            continue
        if s.backend == "sql" and s.pattern.endswith("_<n>") and sql_fresh(s.pattern) and _numbered_from_id_source(s):
            res.ok("C15-S1", f"{s.func.qualname}: step name {s.pattern!r} is numbered from an id source that starts above every number a table name ends in")
            continue
        if s.backend == "sql":
            msg = (f"{s.func.qualname} names a generated query / alias {s.pattern!r} and quotes it as an identifier without checking it against the "
                   f"tables of the pipeline: with common table expressions a user table of that name is shadowed by the generated one "
                   f"(e.g. a table called extend_1 read after the second generated step: SQLite reports a circular reference, or silently reads the CTE)")
        else:
            msg = (f"{s.func.qualname} uses the column name {s.pattern!r} ({s.how}) for its own purposes without checking it against the columns at hand: "
                   f"a user column of that name is overwritten, dropped or makes the step fail")
        res.fail_at("C15-S1", s.func, f"{s.backend}:{s.pattern}", msg, s.node)
    _s1b_user_chosen_step_names(program, res)
    _s1c_helper_scratch_columns(program, res)
    _s1d_polars_selector_names(program, res)
    _s1e_helper_dropped_scratch(program, res)
    res.expect_count("C15-S1", "internal column-name sites in the executors", n_ex, 15)
    res.expect_count("C15-S1", "generated view-name sites in the SQL generator", n_sql, 9)


def _s1b_user_chosen_step_names(program, res):
    """besides tables, a pipeline can bring its own step name into the WITH list: a node whose to_near_sql_implementation_ quotes one of its own
    attributes as the query name (SQLNode.view_name).  The numbering of the generated names has to start above those names too, or a user view called
    extend_1 is silently replaced by the generated step of that name (near_sql takes equal names for the same step)"""
    vr = program.module("view_representations")
    ts = program.method("sql_model", "SQLModel", "to_sql", inherited=False)
    attrs = []
    for cls in vr.classes.values():
        m = cls.methods.get("to_near_sql_implementation_")
        if m is None:
            continue
        for c in ast.walk(m.node):
            if isinstance(c, ast.Call) and isinstance(c.func, ast.Attribute) and c.func.attr == "quote_identifier" and c.args \
                    and isinstance(c.args[0], ast.Attribute) and unparse(c.args[0].value) == "self":
                used_as_name = any(isinstance(a_, ast.Assign) and unparse(a_.targets[0]) in ("quoted_query_name",) and any(x is c for x in ast.walk(a_.value)) for a_ in ast.walk(m.node)) \
                    or any(isinstance(k, ast.keyword) and k.arg == "quoted_query_name" and any(x is c for x in ast.walk(k.value)) for k in ast.walk(m.node))
                if used_as_name:
                    attrs.append((cls, m, c.args[0].attr))
    if not attrs:
        res.ok("C15-S1", "no node brings a name of its own into the WITH list", nontrivial=False)
        return
    start = [st for st in ast.walk(ts.node) if isinstance(st, ast.Assign) and isinstance(st.targets[0], ast.Subscript) and unparse(st.targets[0].value) == "temp_id_source"
             and any(isinstance(c, ast.Call) and dotted_name(c.func) == "max" for c in ast.walk(st.value))]
    for cls, m, attr in attrs:
        res.analysed(m)
        if attr in ("table_name", "key"):
            continue  # tables: covered by ops.get_tables() (rule above)
        reads = [x for x in ast.walk(ts.node) if (isinstance(x, ast.Attribute) and x.attr == attr)
                 or (isinstance(x, ast.Call) and dotted_name(x.func) == "getattr" and len(x.args) >= 2 and isinstance(x.args[1], ast.Constant) and x.args[1].value == attr)]
        if start and reads:
            res.ok("C15-S1", f"{cls.name}.{attr} (a user chosen step name) is read where the numbering of the generated names is started")
        else:
            res.fail_at("C15-S1", ts, f"sql:user-step-name-not-counted:{cls.name}.{attr}",
                        f"{cls.name} puts its own `{attr}` into the WITH list as a query name, and SQLModel.to_sql starts the numbering of the generated names without looking at it: "
                        f"a user view named extend_1 / project_2 is silently replaced by the generated step of that name (SQLite then reads a missing column as a string)", start[0] if start else None)


def _s1c_helper_scratch_columns(program, res):
    """the pipeline builders of solutions.py add columns of their own (`d.extend({"_da_…": …})`, record keys of a RecordSpecification): a user column
    of that name would be overwritten silently, so the name has to be checked against the input's columns first (the module's idiom: an assert)"""
    mod = program.modules.get("solutions")
    if mod is None:
        return
    n = 0
    for f in program.all_functions():
        if f.module is not mod:
            continue
        written = {}
        for c in ast.walk(f.node):
            if isinstance(c, ast.Call) and isinstance(c.func, ast.Attribute) and c.func.attr == "extend" and c.args and isinstance(c.args[0], ast.Dict):
                for k in c.args[0].keys:
                    if isinstance(k, ast.Constant) and isinstance(k.value, str) and k.value.startswith("_da_"):
                        written.setdefault(k.value, k)
            if isinstance(c, ast.keyword) and c.arg == "record_keys" and isinstance(c.value, (ast.List, ast.Tuple)):
                for k in c.value.elts:
                    if isinstance(k, ast.Constant) and isinstance(k.value, str) and k.value.startswith("_da_"):
                        written.setdefault(k.value, k)
        if not written:
            continue
        res.analysed(f)
        guards = [t for t in ast.walk(f.node) if isinstance(t, (ast.Assert, ast.If))]
        for name, node in sorted(written.items()):
            n += 1
            checked = any(isinstance(cmp_, ast.Compare) and isinstance(cmp_.ops[0], (ast.NotIn, ast.In)) and isinstance(cmp_.left, ast.Constant) and cmp_.left.value == name
                          for t in guards for cmp_ in ast.walk(t.test))
            # ... or the name is handed to a checking helper of the module together with columns
            checked = checked or any(isinstance(c, ast.Call) and isinstance(c.func, ast.Name) and c.func.id in mod.functions
                                     and any(isinstance(a_, (ast.List, ast.Tuple)) and any(isinstance(x, ast.Constant) and x.value == name for x in a_.elts) for a_ in c.args)
                                     and any(isinstance(a_, (ast.Assert, ast.Raise)) for a_ in ast.walk(mod.functions[c.func.id].node)) for c in ast.walk(f.node))
            if checked:
                res.ok("C15-S1", f"{f.qualname}: its own column {name!r} is checked against the input's columns")
            else:
                res.fail_at("C15-S1", f, f"helper:{name}",
                            f"{f.qualname} adds the column {name!r} to the caller's table without checking the caller's columns: a column of that name is overwritten and the "
                            f"scores computed from it are silently different", node)
    res.expect_count("C15-S1", "scratch columns of the solutions helpers", n, 2)


def _s1e_helper_dropped_scratch(program, res):
    """the helpers of solutions.py that add working columns under caller-supplied names and drop them again at the end (`drop_columns([tie_breaker_column_name …])`)
    pass every other input column through: a working name has to be checked against *all* columns of the input (`[names …] + list(d.column_names)` all distinct),
    not only against the columns the plan reads — an unread user column of that name is overwritten and then dropped from the result"""
    mod = program.modules.get("solutions")
    if mod is None:
        return
    n = 0
    for f in program.all_functions():
        if f.module is not mod:
            continue
        params = set(f.params())
        dropped = set()
        for c in ast.walk(f.node):
            if isinstance(c, ast.Call) and isinstance(c.func, ast.Attribute) and c.func.attr == "drop_columns" and c.args:
                for x in ast.walk(c.args[0]):
                    if isinstance(x, ast.Name) and x.id in params:
                        dropped.add(x.id)
        if not dropped:
            continue
        res.analysed(f)
        covered = set()
        for st in ast.walk(f.node):
            # [names …] + list(d.column_names), asserted distinct — or the same two things handed to a helper
            exprs = []
            if isinstance(st, ast.Assign) and isinstance(st.value, ast.BinOp):
                exprs = [st.value]
            elif isinstance(st, (ast.Expr, ast.Assert)):
                exprs = [c for c in ast.walk(st) if isinstance(c, ast.Call)]
            for e in exprs:
                txt = unparse(e)
                if ".column_names" in txt:
                    covered |= {x.id for x in ast.walk(e) if isinstance(x, ast.Name) and x.id in dropped}
        has_assert = any(isinstance(a_, ast.Assert) and "set(" in unparse(a_.test) for a_ in ast.walk(f.node)) or \
            any(isinstance(c, ast.Call) and isinstance(c.func, ast.Name) and c.func.id in mod.functions and ".column_names" in unparse(c) for c in ast.walk(f.node))
        for p_ in sorted(dropped):
            n += 1
            if p_ in covered and has_assert:
                res.ok("C15-S1", f"{f.qualname}: the working column `{p_}` is checked against every column of the input before it is added (and dropped again)")
            else:
                res.fail_at("C15-S1", f, f"helper-dropped-scratch-unchecked:{f.name}:{p_}",
                            f"{f.qualname} adds a column under the name `{p_}` and drops it at the end, and no check compares that name with *all* columns of the input: a user column of "
                            f"that name that the plan does not read is overwritten and then missing from the result, while the same table under another column name keeps it")
    res.expect_count("C15-S1", "working columns of solutions helpers that are dropped again", n, 4)


def _s1d_polars_selector_names(program, res):
    """Polars reads a column name of the form `^…$` as a regular expression over the columns, and `*` as all of them, wherever a name is handed to
    pl.col / select / sort (Polars API: "regular expressions start with ^ and end with $").  The executor hands user column names over raw at dozens of
    places, so the names have to be refused (or escaped) once, where evaluation starts"""
    pm = program.modules.get("polars_model")
    if pm is None:
        return
    raw_sites = [c for f in program.all_functions() if f.module is pm for c in ast.walk(f.node)
                 if isinstance(c, ast.Call) and (dotted_name(c.func) or "") == "pl.col" and c.args and not isinstance(c.args[0], ast.Constant)]
    ev = program.cls("polars_model", "PolarsModel").methods.get("eval")
    if ev is None:
        raise AnalysisError("anchor vanished: PolarsModel.eval")
    res.analysed(ev)
    def mentions_selector(fn):
        tests = [t for t in ast.walk(fn) if isinstance(t, (ast.If, ast.Assert))]
        for t in tests:
            txt = unparse(t.test)
            if ("'^'" in txt or '"^"' in txt or "\\^" in txt) and ("'$'" in txt or '"$"' in txt or "\\$" in txt or "$" in txt):
                if isinstance(t, ast.Assert) or any(isinstance(x, ast.Raise) for x in ast.walk(t)):
                    return True
        return False
    guarded = mentions_selector(ev.node) or any(
        mentions_selector(h.node) for c in ast.walk(ev.node) if isinstance(c, ast.Call) and isinstance(c.func, ast.Attribute) and unparse(c.func.value) == "self"
        for h in [program.cls("polars_model", "PolarsModel").find_method(c.func.attr)] if h is not None)
    if guarded:
        res.ok("C15-S1", f"PolarsModel.eval refuses column names Polars would read as selectors (`^…$`, `*`) before any of the {len(raw_sites)} raw pl.col(<name>) sites runs")
    else:
        res.fail_at("C15-S1", ev, "polars:selector-syntax-in-column-name",
                    f"user column names reach pl.col / select / sort raw ({len(raw_sites)} pl.col sites): Polars reads `^x$` as a regular expression and `*` as every column, so a column "
                    f"renamed to '^x$' makes project sum the column x instead, and order_rows drops it — silently; Pandas and SQL take the name as it is")
    res.expect_count("C15-S1", "raw pl.col(<name>) sites in the Polars executor", len(raw_sites), 10)


def _colname_vars(fnode) -> Set[str]:
    """variables ranging over column names: loop / comprehension targets over *.columns, column lists of the operator"""
    out = set()
    for n in ast.walk(fnode):
        gens = []
        if isinstance(n, (ast.ListComp, ast.SetComp, ast.GeneratorExp, ast.DictComp)):
            gens = [(g.target, g.iter) for g in n.generators]
        elif isinstance(n, ast.For):
            gens = [(n.target, n.iter)]
        for (t, it) in gens:
            txt = unparse(it)
            if any(w in txt for w in ("columns", "column_names", "common_cols", "col_list", "keys()", "on_a", "on_b", "group_by", "partition_by", "order_by")):
                for nm in ast.walk(t):
                    if isinstance(nm, ast.Name):
                        out.add(nm.id)
    return out


def _s2(program, res):
    n_funcs = 0
    n_pat = 0
    for mname in STEP_MODULES:
        if mname not in program.modules:
            continue
        mod = program.modules[mname]
        for f in program.all_functions():
            if f.module is not mod:
                continue
            if not (f.name.endswith("_step") or f.name in ("add_data_frame_columns_to_data_frame_", "blocks_to_rowrecs", "rowrecs_to_blocks", "transform")):
                continue
            n_funcs += 1
            res.analysed(f)
            cvars = _colname_vars(f.node)
            bad = []
            for n in ast.walk(f.node):
                if isinstance(n, ast.Call) and isinstance(n.func, ast.Attribute) and n.func.attr in ("endswith", "startswith", "removesuffix", "removeprefix", "find", "rfind") \
                        and isinstance(n.func.value, ast.Name) and n.func.value.id in cvars:
                    bad.append((n, f"{n.func.value.id}.{n.func.attr}(…)"))
                if isinstance(n, ast.Call) and (dotted_name(n.func) or "").startswith("re.") and any(isinstance(a, ast.Name) and a.id in cvars for a in n.args):
                    bad.append((n, dotted_name(n.func)))
                if isinstance(n, ast.Compare) and len(n.ops) == 1 and isinstance(n.ops[0], (ast.In, ast.NotIn)) and isinstance(n.left, ast.Constant) \
                        and isinstance(n.left.value, str) and isinstance(n.comparators[0], ast.Name) and n.comparators[0].id in cvars:
                    bad.append((n, f"{n.left.value!r} in {n.comparators[0].id}"))
                if isinstance(n, ast.Subscript) and isinstance(n.slice, ast.Slice) and isinstance(n.value, ast.Name) and n.value.id in cvars:
                    bad.append((n, f"{n.value.id}[…:…]"))
                if isinstance(n, ast.Call) and isinstance(n.func, ast.Attribute) and n.func.attr in ("filter",) and any(
                        k.arg in ("regex", "like") for k in n.keywords):
                    bad.append((n, "filter(regex= / like=)"))
            if bad:
                n_pat += len(bad)
                nd, what = bad[0]
                res.fail_at("C15-S2", f, f"column-chosen-by-name-pattern:{what}",
                            f"{f.qualname} decides what to do with a column from the shape of its name (`{unparse(nd)[:70]}`): a user column whose name "
                            f"merely looks like an internal one is captured (dropped, overwritten or treated as a temporary)", nd)
            else:
                res.ok("C15-S2", f"{f.qualname}: columns are addressed by exact names only")
    res.expect_count("C15-S2", "executor step functions inspected", n_funcs, 24)


def _s3(program, res):
    ex = _executor_sites(program)
    by_func: Dict[str, Dict[str, List[Site]]] = {}
    for s in ex:
        by_func.setdefault(s.func.where(), {}).setdefault(s.pattern, []).append(s)
    n = 0
    # module-level temporaries must be distinct from each other
    for mname in STEP_MODULES:
        if mname not in program.modules:
            continue
        mod = program.modules[mname]
        consts = {k: v.value for k, v in mod.consts.items() if isinstance(v, ast.Constant) and isinstance(v.value, str) and ("_da_" in v.value or "data_algebra" in v.value)}
        vals: Dict[str, List[str]] = {}
        for k, v in consts.items():
            vals.setdefault(v, []).append(k)
        for v, ks in vals.items():
            n += 1
            if len(ks) > 1:
                f = next(iter(mod.functions.values()))
                res.fail("C15-S3", f"{mname}:<module>", f"shared-internal-name:{v}", f"module constants {ks} all name the internal column {v!r}: the temporaries overwrite each other",
                         mod.relpath, 1)
            else:
                res.ok("C15-S3", f"{mname}: internal column {v!r} is named by one constant only")
    # within a step: different purposes, different names (the generated families must have different prefixes)
    for where, pats in by_func.items():
        fams = [p for p in pats if p.endswith("<n>")]
        stems = {}
        for p in pats:
            stems.setdefault(p.replace("<n>", ""), []).append(p)
        for stem, ps in stems.items():
            if len(set(ps)) > 1:
                s0 = pats[ps[0]][0]
                res.fail_at("C15-S3", s0.func, f"name-family-overlap:{stem}", f"{s0.func.qualname}: the fixed name {stem!r} and the generated family {stem}<n> overlap", s0.node)
        suffixes = [p for p in pats if p.startswith("<col>")]
        for i, a in enumerate(sorted(set(suffixes))):
            for b in sorted(set(suffixes))[i + 1:]:
                n += 1
                if a.endswith(b[5:]) or b.endswith(a[5:]):
                    s0 = pats[a][0]
                    res.fail_at("C15-S3", s0.func, f"suffix-overlap:{a}:{b}", f"{s0.func.qualname}: suffix {a[5:]!r} and {b[5:]!r} overlap: a twin of one kind is taken for the other", s0.node)
                else:
                    res.ok("C15-S3", f"{s0.func.qualname if False else where.split(':')[1]}: suffixes {a[5:]!r} and {b[5:]!r} cannot be confused")


def run(program, res, tier):
    res.rule("C15-S1", "every internal name in a namespace shared with the user is made fresh against the user's names")
    res.rule("C15-S2", "executor steps address columns by exact names, never by a pattern over the name")
    res.rule("C15-S3", "internal names of one step are pairwise distinct")
    _s1(program, res)
    _s2(program, res)
    _s3(program, res)
    # automatic table names of the data spaces live in the namespace of the user's tables (the database for DBSpace):
    # they must be made fresh against it (the C20-S2 rule, decided per namespace the effect writes into)
    res.rule("C15-S4", "automatically generated table keys are fresh in the namespace they are written into (binding / database tables)")
    from ..report import Only
    from . import c20
    for (mod, cname, binding) in c20.SPACES:
        cls = program.cls(mod, cname)
        for mname in ("insert", "execute"):
            m = cls.methods.get(mname) or cls.find_method(mname)
            if m is None:
                raise AnalysisError(f"anchor vanished: {cname}.{mname}")
            res.analysed(m)
            c20._check_writer(Only(res, {"C20-S2": "C15-S4"}), cname, m, binding, cls)
