"""C20 data spaces behave like a keyed store of tables — structural clauses."""
from __future__ import annotations

import ast
from typing import List, Optional, Set, Tuple

from .. import cfg as cfgmod
from .. import deps as depsmod
from ..index import AnalysisError, dotted_name, unparse

EXPLANATION = (
    "For both DataSpace implementations (in-memory DataModelSpace, database-backed DBSpace), over every CFG path "
    "of insert and execute (path enumeration, loops unrolled 0/1, branch conditions partially evaluated over the "
    "facts allow_overwrite∈{allowed,forbidden} and key∈{absent,present}): S1 every store effect on the key→table "
    "binding is reached only on paths that established 'overwrite allowed' or 'key absent'; S2 an automatically "
    "generated key (key is None) passes, after its last assignment, a test that establishes 'key absent' — whatever "
    "allow_overwrite is; S3 the binding is written only after (dominated by) the fallible operation it records, and "
    "no destructive effect precedes it; S4 keys()/retrieve()/describe() read the single binding; S5 every normal path from a "
    "database table write (insert_table / create_table) to a return passes through an unconditional assignment of the "
    "binding entry (directly or through model_table), so a replaced table never keeps its old description. "
    "Not decided: equivalence with a reference map over arbitrary histories."
)

SPACES = [("data_model_space", "DataModelSpace", "data_map"), ("db_space", "DBSpace", "description_map")]
FALLIBLE = {"eval", "insert_table", "create_table", "drop_table"}
STORE_CALLS = {"model_table"}          # helpers that write the binding
DESTRUCTIVE_CALLS = {"remove", "drop_table"}


def _cond_facts(cond: ast.AST, label, key: str, binding: str, aliases: Set[str] = frozenset(), cls=None) -> Set[str]:
    """facts established by taking branch `label` of `cond`.  `aliases`: locals / calls that denote the keys of the binding"""
    facts: Set[str] = set()

    def ev(e, truth):
        if isinstance(e, ast.UnaryOp) and isinstance(e.op, ast.Not):
            ev(e.operand, not truth)
            return
        if isinstance(e, ast.BoolOp):
            # and-true / or-false give facts for every operand
            if isinstance(e.op, ast.And) and truth:
                for x in e.values:
                    ev(x, True)
            if isinstance(e.op, ast.Or) and not truth:
                for x in e.values:
                    ev(x, False)
            # a failed conjunction / satisfied disjunction: one of the operands decided; if each alternative
            # yields 'allowed' or 'absent', the disjunction of the two is what S1 needs
            if (isinstance(e.op, ast.And) and not truth) or (isinstance(e.op, ast.Or) and truth):
                alts = [_cond_facts(x, truth, key, binding, aliases, cls) for x in e.values]
                if alts and all(("allowed" in a) or ("absent" in a) for a in alts):
                    facts.add("allowed-or-absent")
            return
        if isinstance(e, ast.Name) and e.id == "allow_overwrite":
            facts.add("allowed" if truth else "forbidden")
            return
        if isinstance(e, ast.Compare) and len(e.ops) == 1 and isinstance(e.left, ast.Name) and e.left.id == key:
            comp = unparse(e.comparators[0])
            if f"self.{binding}" in comp or comp in aliases:
                if isinstance(e.ops[0], ast.In):
                    facts.add("present" if truth else "absent")
                elif isinstance(e.ops[0], ast.NotIn):
                    facts.add("absent" if truth else "present")
            elif isinstance(e.comparators[0], ast.Constant) and e.comparators[0].value is None:
                if isinstance(e.ops[0], ast.Is):
                    facts.add("auto" if truth else "given")
                elif isinstance(e.ops[0], ast.IsNot):
                    facts.add("given" if truth else "auto")
        # a predicate method of the class: self.<p>(key) whose single return is an expression over its parameter
        if cls is not None and isinstance(e, ast.Call) and isinstance(e.func, ast.Attribute) and unparse(e.func.value) == "self" and len(e.args) == 1 \
                and isinstance(e.args[0], ast.Name) and e.args[0].id == key:
            h = cls.find_method(e.func.attr)
            if h is not None:
                hp = [p_ for p_ in h.params() if p_ != "self"]
                rets_ = [r.value for r in ast.walk(h.node) if isinstance(r, ast.Return) and r.value is not None]
                if len(hp) == 1 and len(rets_) == 1:
                    facts.update(_cond_facts(rets_[0], truth, hp[0], binding, aliases | _keys_aliases(cls, binding), cls))
            return
        if isinstance(e, ast.Call) and isinstance(e.func, ast.Attribute) and e.func.attr == "table_exists" \
                and any(isinstance(a, ast.Name) and a.id == key for a in e.args):
            facts.add("db-present" if truth else "db-absent")

    if isinstance(label, bool):
        ev(cond, label)
    return facts


def _helper_body_has(cls, name: str, binding: str):
    """what a method self.<name>(...) of the concrete class does: {'store', 'table-write', 'fallible'} (one level, for template methods)"""
    if cls is None:
        return set()
    h = cls.find_method(name)
    if h is None:
        return set()
    out = set()
    for st in ast.walk(h.node):
        if isinstance(st, ast.Assign):
            for t in st.targets:
                if isinstance(t, ast.Subscript) and unparse(t.value) == f"self.{binding}":
                    out.add("store")
        if isinstance(st, ast.Call) and isinstance(st.func, ast.Attribute):
            if st.func.attr in ("insert_table", "create_table"):
                out |= {"table-write", "fallible"}
            if st.func.attr in ("eval",):
                out.add("fallible")
            if st.func.attr in STORE_CALLS and unparse(st.func.value) == "self":
                out.add("store")
    return out


def _effects(m, binding: str, cls=None):
    """(node-stmt, kind, description) for store/delete effects on the binding and table-creating calls"""
    out = []
    for st in ast.walk(m.node):
        # a template method: self.<hook>(...) implemented by the concrete class
        if isinstance(st, (ast.Expr, ast.Assign, ast.Return)) and isinstance(getattr(st, "value", None), ast.Call):
            c0 = st.value
            if isinstance(c0.func, ast.Attribute) and unparse(c0.func.value) == "self" and c0.func.attr not in STORE_CALLS | DESTRUCTIVE_CALLS \
                    and c0.func.attr not in ("describe", "keys", "retrieve"):
                has = _helper_body_has(cls, c0.func.attr, binding)
                if "store" in has:
                    out.append((st, "store", unparse(c0.func) + "()"))
                if "table-write" in has:
                    out.append((st, "table-write", unparse(c0.func) + "()"))
        if isinstance(st, ast.Assign):
            for t in st.targets:
                if isinstance(t, ast.Subscript) and unparse(t.value) == f"self.{binding}":
                    out.append((st, "store", unparse(t)))
        if isinstance(st, ast.Delete):
            for t in st.targets:
                if isinstance(t, ast.Subscript) and unparse(t.value) == f"self.{binding}":
                    out.append((st, "delete", unparse(t)))
        if isinstance(st, (ast.Expr, ast.Assign, ast.Return)) and isinstance(getattr(st, "value", None), ast.Call):
            c = st.value
            if isinstance(c.func, ast.Attribute):
                if c.func.attr in STORE_CALLS and unparse(c.func.value) == "self":
                    out.append((st, "store", unparse(c.func)))
                if c.func.attr in ("insert_table", "create_table"):
                    out.append((st, "table-write", unparse(c.func)))
                if c.func.attr in DESTRUCTIVE_CALLS:
                    out.append((st, "destroy", unparse(c.func)))
    return out


def _keys_aliases(cls, binding: str) -> Set[str]:
    """expressions that denote the keys of the binding: self.keys() when the class's keys() returns them"""
    out = set()
    km = cls.find_method("keys")
    if km is not None:
        rets = [r.value for r in ast.walk(km.node) if isinstance(r, ast.Return) and r.value is not None]
        if rets and all(f"self.{binding}" in unparse(r) for r in rets):
            out.add("self.keys()")
    return out


def _helper_summary(cls, hname: str, binding: str) -> Optional[Set[str]]:
    """facts a key returned by self.<hname>() carries on every path (tested after its last assignment), or None if not a key generator"""
    h = cls.find_method(hname)
    if h is None:
        return None
    rets = [r for r in ast.walk(h.node) if isinstance(r, ast.Return) and isinstance(r.value, ast.Name)]
    if not rets:
        return None
    rv = rets[0].value.id
    g = cfgmod.build(h.node)
    aliases = set(_keys_aliases(cls, binding))
    for st in ast.walk(h.node):
        if isinstance(st, ast.Assign) and len(st.targets) == 1 and isinstance(st.targets[0], ast.Name) \
                and (unparse(st.value) in aliases or f"self.{binding}" in unparse(st.value)):
            aliases.add(st.targets[0].id)
    summary: Optional[Set[str]] = None
    for r in g.returns():
        for path in g.paths(targets={r.id}, limit=5000):
            since: Set[str] = set()
            for (nid, label) in path[:-1]:
                n = g.nodes[nid]
                if n.kind == "test":
                    since |= _cond_facts(n.cond, label, rv, binding, aliases, cls)
                elif n.kind == "stmt" and isinstance(n.stmt, ast.Assign) and any(isinstance(t, ast.Name) and t.id == rv for t in n.stmt.targets):
                    since = set()
            summary = since if summary is None else (summary & since)
    return summary or set()



def _normal_reach(g, start: int, avoid: Set[int]) -> Set[int]:
    """nodes reachable from start over non-exception edges without passing through `avoid`"""
    seen: Set[int] = set()
    todo = [s_ for (s_, lab) in g.nodes[start].succ if lab != "exc"]
    while todo:
        x = todo.pop()
        if x in seen or x in avoid:
            continue
        seen.add(x)
        todo.extend(s_ for (s_, lab) in g.nodes[x].succ if lab != "exc")
    return seen


def _store_helper_unconditional(cls, hname: str, binding: str) -> bool:
    """the helper (model_table) assigns self.<binding>[...] on every normal path to a return"""
    hm = cls.find_method(hname) if cls is not None else None
    if hm is None:
        return False
    hg = cfgmod.build(hm.node)
    stores = {hg.node_of(st).id for st in ast.walk(hm.node) if isinstance(st, ast.Assign) and any(
        isinstance(t, ast.Subscript) and unparse(t.value) == f"self.{binding}" for t in st.targets)}
    if not stores:
        return False
    rets = {n.id for n in hg.returns()} | {hg.exit}
    reach = _normal_reach(hg, hg.entry, stores | {n.id for n in hg.raises()})
    return not (reach & rets)


def _check_recorded(res, cname, m, binding, cls, g, effects):
    tw = [(st, dsc) for (st, k, dsc) in effects if k == "table-write"]
    if not tw:
        return
    store_ids: Set[int] = set()
    for (st, k, dsc) in effects:
        if k != "store":
            continue
        if isinstance(st, ast.Assign) and any(isinstance(t, ast.Subscript) and unparse(t.value) == f"self.{binding}" for t in st.targets):
            store_ids.add(g.node_of(st).id)
        elif isinstance(getattr(st, "value", None), ast.Call) and isinstance(st.value.func, ast.Attribute) and unparse(st.value.func.value) == "self":
            if _store_helper_unconditional(cls, st.value.func.attr, binding):
                store_ids.add(g.node_of(st).id)
    soft = [c for c in ast.walk(m.node) if isinstance(c, ast.Call) and isinstance(c.func, ast.Attribute)
            and c.func.attr in ("setdefault",) and unparse(c.func.value) == f"self.{binding}"]
    rets = {n.id for n in g.returns()} | {g.exit}
    for (st, dsc) in tw:
        w = g.node_of(st).id
        if w in store_ids:
            res.ok("C20-S5", f"{cname}.{m.name}: {dsc} and the binding are written by one statement")
            continue
        leak = _normal_reach(g, w, store_ids | {n.id for n in g.raises()}) & rets
        if leak:
            how = (f"; `{unparse(soft[0])[:60]}` keeps the old entry when the key is present" if soft else "")
            res.fail_at("C20-S5", m, f"table-write-unrecorded:{dsc}",
                        f"{cname}.{m.name}: after `{unparse(st)[:60]}` replaced the table, a return is reached without an unconditional "
                        f"`self.{binding}[key] = ...`{how}: describe(key) and the returned description keep the columns of the table that was replaced, "
                        f"while retrieve(key) reads the new one", soft[0] if soft else st)
        else:
            res.ok("C20-S5", f"{cname}.{m.name}: every normal path from {dsc} to a return replaces self.{binding}[key]")


def _check_writer(res, cname, m, binding, cls=None):
    g = cfgmod.build(m.node)
    key = "key"
    aliases = _keys_aliases(cls, binding) if cls is not None else set()
    effects = _effects(m, binding, cls)
    writes = [(st, k, dsc) for (st, k, dsc) in effects if k in ("store", "table-write")]
    if not writes:
        raise AnalysisError(f"{cname}.{m.name}: no store effect on self.{binding} found")
    # ---- S1 / S2 by path enumeration to each write
    for (st, kind, dsc) in writes:
        node = g.node_of(st)
        n_paths = 0
        bad_s1 = None
        bad_s2 = None
        for path in g.paths(targets={node.id}, limit=20000):
            n_paths += 1
            facts: Set[str] = set()
            since_assign: Set[str] = set()
            auto = False
            for (nid, label) in path[:-1]:
                n = g.nodes[nid]
                if n.kind == "test":
                    f = _cond_facts(n.cond, label, key, binding, aliases, cls)
                    facts |= f
                    since_assign |= f
                    if "auto" in f:
                        auto = True
                elif n.kind == "stmt" and isinstance(n.stmt, ast.Assign) and any(
                        isinstance(t, ast.Name) and t.id == key for t in n.stmt.targets):
                    since_assign = set()
                    facts -= {"absent", "present", "db-absent", "db-present"}
                    v = n.stmt.value
                    # key = self.<generator>() : the generator's own freshness tests count
                    if cls is not None and isinstance(v, ast.Call) and isinstance(v.func, ast.Attribute) and isinstance(v.func.value, ast.Name) \
                            and v.func.value.id == "self" and not v.args:
                        hs = _helper_summary(cls, v.func.attr, binding)
                        if hs:
                            since_assign |= hs
                            facts |= hs
            if not ("allowed" in facts or "absent" in facts or "allowed-or-absent" in facts):
                bad_s1 = path
            # an automatic key must be fresh in the namespace this effect writes into: the binding for a store,
            # the database's tables for a table write
            need = "db-absent" if kind == "table-write" else "absent"
            if auto and need not in since_assign:
                bad_s2 = path
        if n_paths == 0:
            raise AnalysisError(f"{cname}.{m.name}: store effect unreachable")
        inst = f"{cname}.{m.name}: {kind} {dsc}"
        if bad_s1 is not None:
            conds = "; ".join(f"{unparse(g.nodes[nid].cond)}={lab}" for (nid, lab) in bad_s1[:-1] if g.nodes[nid].kind == "test")
            res.fail_at("C20-S1", m, f"overwrite-guard:{kind}:{dsc}",
                        f"{inst} is reachable on a path that neither established allow_overwrite nor that the key is absent "
                        f"({conds}): a write with allow_overwrite=False can replace an existing entry", st)
        else:
            res.ok("C20-S1", f"{inst}: every one of {n_paths} paths established 'overwrite allowed' or 'key absent'")
        if bad_s2 is not None:
            where_ = "the tables of the database (table_exists)" if kind == "table-write" else f"the existing keys (self.{binding})"
            res.fail_at("C20-S2", m, f"auto-key-freshness:{kind}:{dsc}",
                        f"{inst} is reachable with an automatically generated key that was never tested against {where_} "
                        f"after its last assignment: an auto-named entry can replace an existing one", st)
        else:
            res.ok("C20-S2", f"{inst}: auto-generated keys are tested for freshness on every path")
    # ---- S5 a table write is recorded: every normal path from a table write to a return replaces the binding entry
    _check_recorded(res, cname, m, binding, cls, g, effects)
    # ---- S3 store after success
    fallible = [n for n in g.stmt_nodes(("stmt", "return")) if any(
        isinstance(c, ast.Call) and isinstance(c.func, ast.Attribute) and (c.func.attr in ("eval", "insert_table", "create_table")
                                                                          or (unparse(c.func.value) == "self" and "fallible" in _helper_body_has(cls, c.func.attr, binding)))
        for c in ast.walk(n.stmt))]
    if not fallible:
        if m.name == "execute":
            raise AnalysisError(f"{cname}.{m.name}: fallible operation (eval/create_table) not found")
        # an insert of a caller-supplied value: whatever examines that value (describe / describe_table raise on duplicate, non-string or
        # missing column names, lazy frames ...) has to run before the binding is written, or a refused insert still changes the space
        params = set(m.params()) - {"self"}
        late = None
        for (st, kind, dsc) in effects:
            if kind != "store":
                continue
            node = g.node_of(st)
            stored_names = {n.id for n in ast.walk(st.value) if isinstance(n, ast.Name)} if isinstance(st, ast.Assign) else set()
            if not (stored_names & params):
                continue
            after = g.reachable_from(node.id) - {node.id}
            for nid in after:
                n2 = g.nodes[nid]
                if n2.stmt is None or n2.kind not in ("stmt", "return"):
                    continue
                for c in ast.walk(n2.stmt):
                    if isinstance(c, ast.Call) and (dotted_name(c.func) or "").split(".")[-1] in ("describe", "describe_table", "descr"):
                        late = (st, c)
        if late is not None:
            res.fail_at("C20-S3", m, "validation-after-store",
                        f"{cname}.{m.name} writes `{unparse(late[0])[:40]}` and only then calls `{unparse(late[1])[:40]}`, which raises for a table it cannot describe "
                        f"(duplicate or non-string column names, no columns, a lazy frame): the insert fails, yet keys() lists the key, an existing entry is replaced, and describe(key) raises from then on", late[1])
        else:
            res.ok("C20-S3", f"{cname}.{m.name}: nothing that can refuse the value runs after the binding is written")
        return
    fnode = fallible[0]
    for (st, kind, dsc) in effects:
        node = g.node_of(st)
        if kind == "store":
            if g.dominates(fnode.id, node.id) and fnode.id != node.id or node.id == fnode.id:
                res.ok("C20-S3", f"{cname}.{m.name}: {dsc} is written only after `{unparse(fnode.stmt)[:50]}` succeeded")
            else:
                res.fail_at("C20-S3", m, f"store-before-success:{dsc}",
                            f"{cname}.{m.name} writes {dsc} before the operation it records has succeeded: a failed operation "
                            f"would still change keys()/retrieve()", st)
        if kind in ("destroy", "delete") and node.id != fnode.id:
            if not g.dominates(fnode.id, node.id):
                res.fail_at("C20-S3", m, f"destroy-before-success:{dsc}",
                            f"{cname}.{m.name} performs the destructive `{unparse(st)[:50]}` before the fallible "
                            f"`{unparse(fnode.stmt)[:50]}`: if that fails the old entry is already gone", st)


def _s3_insert_table_helper(program, res):
    """DBSpace.insert writes through DBModel.insert_table; what that helper destroys before its own fallible write is destroyed for the space"""
    m = program.method("db_model", "DBModel", "insert_table", inherited=False)
    res.analysed(m)
    g = cfgmod.build(m.node)
    drops = [n for n in g.stmt_nodes(("stmt",)) if any(isinstance(c, ast.Call) and isinstance(c.func, ast.Attribute) and c.func.attr in ("drop_table",) for c in ast.walk(n.stmt))]
    writes = [n for n in g.stmt_nodes(("stmt",)) if any(isinstance(c, ast.Call) and isinstance(c.func, ast.Attribute) and c.func.attr in ("to_sql", "create_table", "executemany")
                                                         for c in ast.walk(n.stmt))]
    if not writes:
        raise AnalysisError("DBModel.insert_table: the write (to_sql) was not found")
    early = [d_ for d_ in drops if any(w.id in g.reachable_from(d_.id) for w in writes)]
    if early:
        res.fail_at("C20-S3", m, "destroy-before-success:insert_table",
                    f"DBModel.insert_table runs `{unparse(early[0].stmt)[:50]}` before the fallible `{unparse(writes[0].stmt)[:40]}`: when the write fails (a value the database cannot "
                    f"store, duplicate column names) the old table is gone or half replaced although DBSpace.insert reports failure and keeps the old description", early[0].stmt)
    else:
        res.ok("C20-S3", "DBModel.insert_table destroys nothing before its write has succeeded")


def run(program, res, tier):
    res.rule("C20-S1", "no store effect without 'overwrite allowed' or 'key absent' on the path")
    res.rule("C20-S2", "auto-generated keys are tested for freshness after their last assignment")
    res.rule("C20-S3", "binding written only after the fallible operation succeeded; nothing destroyed before it")
    res.rule("C20-S4", "keys/retrieve/describe read the single binding")
    res.rule("C20-S5", "a table write is recorded: the binding entry is replaced unconditionally before the writer returns")
    _s3_insert_table_helper(program, res)
    for (mod, cname, binding) in SPACES:
        cls = program.cls(mod, cname)
        for mname in ("insert", "execute"):
            m = cls.methods.get(mname) or cls.find_method(mname)   # a template method of the base class is analysed for this class's hooks
            if m is None:
                raise AnalysisError(f"anchor vanished: {cname}.{mname}")
            res.analysed(m)
            _check_writer(res, cname, m, binding, cls)
        # remove: binding deleted, and (DBSpace) after the fallible drop
        rm = cls.methods.get("remove")
        if rm is None:
            raise AnalysisError(f"anchor vanished: {cname}.remove")
        res.analysed(rm)
        g = cfgmod.build(rm.node)
        eff = _effects(rm, binding)
        dels = [e for e in eff if e[1] == "delete"]
        if not dels:
            res.fail_at("C20-S4", rm, "remove-keeps-binding", f"{cname}.remove does not delete self.{binding}[key]")
        else:
            res.ok("C20-S4", f"{cname}.remove deletes the binding entry")
        drops = [e for e in eff if e[1] == "destroy" and "drop_table" in e[2]]
        for d_ in drops:
            for dl in dels:
                if not g.dominates(g.node_of(d_[0]).id, g.node_of(dl[0]).id):
                    res.fail_at("C20-S3", rm, "delete-before-drop",
                                f"{cname}.remove deletes the description before the fallible drop_table: if the drop fails, "
                                f"keys() no longer lists a table that still exists", dl[0])
        # observers
        for mname in ("keys", "retrieve", "describe"):
            m = cls.methods.get(mname)
            if m is None:
                raise AnalysisError(f"anchor vanished: {cname}.{mname}")
            res.analysed(m)
            txt = unparse(m.node)
            if f"self.{binding}" in txt:
                if mname == "keys":
                    rets = [r for r in ast.walk(m.node) if isinstance(r, ast.Return)]
                    if rets and f"self.{binding}.keys()" in unparse(rets[0].value):
                        res.ok("C20-S4", f"{cname}.keys reports exactly the binding's keys")
                    else:
                        res.fail_at("C20-S4", m, "keys-source", f"{cname}.keys returns `{unparse(rets[0].value) if rets else None}`")
                else:
                    sub = [n for n in ast.walk(m.node) if isinstance(n, ast.Subscript) and unparse(n.value) == f"self.{binding}"
                           and unparse(n.slice) == "key"]
                    if sub:
                        res.ok("C20-S4", f"{cname}.{mname} looks its key up in the binding")
                    else:
                        res.fail_at("C20-S4", m, f"{mname}-source", f"{cname}.{mname} does not look `key` up in self.{binding}")
            else:
                res.fail_at("C20-S4", m, f"{mname}-source", f"{cname}.{mname} does not read self.{binding}: a second source of truth")
