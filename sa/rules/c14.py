"""C14 generated SQL carries every literal and identifier verbatim — structural clauses (sink-driven slicing)."""
from __future__ import annotations

import ast
import re
from typing import Dict, List, Optional, Set, Tuple

from .. import cfg as cfgmod
from .. import facts
from .. import sqltaint as T
from ..index import AnalysisError, dotted_name, unparse
from ..sqlexpr import Dialect

EXPLANATION = (
    "S1 no unsanitised text in SQL: starting at every place where text becomes SQL — the return values of the "
    "emitters and text builders of SQLModel and of every dialect override, of every formatter function in every "
    "dialect's table, the NearSQL fields the emitters splice in verbatim (checked at every constructor keyword and "
    "attribute store in the package), the arguments of parameters that emitters splice in verbatim (checked at every "
    "call site), and the composed strings handed to execute/read_query — the string-building expression is sliced "
    "backwards through concatenation, f-strings, join, comprehensions, local variables and inlined helper calls to "
    "its leaves. Every leaf must be a constant, a number, dialect configuration, the result of a sanitiser "
    "(quote_identifier, quote_table_name, quote_string, value_to_sql, expr_to_sql, _clean_annotation) or of another "
    "checked SQL producer. A leaf that is user data (a field of a node / record specification / expression, a "
    "column set) is a violation unless it is a triaged exception with its reason. S2 no expression source is built "
    "from user strings inside the generator (ops dict values must be Term objects). S3 comment sites: text placed "
    "after `--` is constant, configuration, or passed through _clean_annotation, whose regex removes every line "
    "break and whose result is what is returned. S4 quoting completeness: the characters the resolved quote_string "
    "/ quote_identifier of each dialect rewrites or rejects cover the characters that are special inside that "
    "dialect's literal / quoted identifier (frozen dialect table). S5 text integrity: no call that looks inside "
    "strings (split, splitlines, replace, re.sub, case mapping, slicing) is applied to assembled SQL that contains "
    "sanitised user text. Not decided: well-formedness of whole queries; server-side Unicode handling."
)

TEXT_FUNCS = ["table_values_to_sql_str_list", "enc_term_", "nearsqlcte_to_sql_str_list_", "nearsqltable_to_sql_str_list_",
              "nearsqlunary_to_sql_str_list_", "nearsqlrawq_to_sql_str_list_", "nearsqlbinary_to_sql_str_list_", "to_sql",
              "expr_to_sql", "value_to_sql", "_indent_and_sep_terms", "row_recs_to_blocks_query_str_list_pair",
              "blocks_to_row_recs_query_str_list_pair", "_coalesce_terms"]
DIALECTS = [("SQLite", "SQLiteModel"), ("PostgreSQL", "PostgreSQLModel"), ("MySQL", "MySQLModel"), ("BigQuery", "BigQueryModel"),
            ("SparkSQL", "SparkSQLModel")]
SQL_TYPED_PUBLIC_PARAMS = {"q", "sql", "query"}

# (function qualname, leaf text) -> reason.  Leaf text as printed by sqltaint.show, without the function part.
TRIAGE: Dict[Tuple[str, str], str] = {
    ("SQLModel.expr_to_sql", "param:expression"):
        "a str passed as an expression is defined as pre-rendered SQL (internal callers pass fragments built from sanitised parts: "
        "_coalesce_terms; S2 checks no user string is turned into expression source)",
    ("SQLModel.expr_to_sql", "field:expression.op"):
        "operator / method names come from the expression parser (Python identifiers and operator tokens), not from data",
    ("SQLModel.value_to_sql", "param:v"):
        "fall-through str(v) is reached only for non-str scalars (numpy numbers, Decimal): str values take the quote_string path above it",
    ("SQLModel._indent_and_sep_terms", "param:sep"): "separator is a constant at every call site (checked as a demand)",
}
# user-data leaves that are numbers by construction (validated where the node is built)
NUMERIC_FIELDS: Dict[str, str] = {
    "order_node.limit": "the row limit is a number by API contract (Optional[int]) and is rendered with repr(): a str would come out as a quoted "
                        "Python literal, not as free text; it is not a string literal or a name in the sense of C14",
}


def _nearsql_fields(program) -> Set[str]:
    ns = program.module("near_sql")
    fields = set()
    for c in ns.classes.values():
        m = c.methods.get("__init__")
        if m is None:
            continue
        for n in ast.walk(m.node):
            if isinstance(n, ast.Attribute) and isinstance(n.value, ast.Name) and n.value.id == "self" and isinstance(n.ctx, ast.Store):
                fields.add(n.attr)
    if "terms" not in fields or "suffix" not in fields:
        raise AnalysisError("anchor vanished: NearSQL fields terms/suffix")
    return fields


class Engine:
    DEPTH = 4

    def __init__(self, program, res):
        self.program = program
        self.res = res
        self.sm = program.cls("sql_model", "SQLModel")
        self.fields = _nearsql_fields(program)
        self.slicer = T.Slicer(program, [self.sm], nearsql_fields=self.fields, max_depth=Engine.DEPTH)
        self.ns_demands: Dict[str, str] = {}      # field -> first demanding emitter
        self.param_demands: Dict[Tuple[str, str], str] = {}   # (function name, param) -> who
        self.sink_count = 0
        self.leaf_count = 0
        self.keyalias_ok = True
        self.field_sanitised: Set[str] = set()
        self.numeric_guarded: Set[Tuple[str, str]] = set()

    def scope_for(self, f, self_name="auto"):
        params = f.params()
        sn = None
        if self_name == "auto":
            if f.cls is not None and params:
                sn = params[0]
            elif params and params[0] in ("dbmodel", "db_model"):
                sn = params[0]
        roots = ()
        if f.module.name == "near_sql" and f.cls is not None and params:
            roots = (params[0],)
            sn = None
        return T.Scope(f.node, qual=f.qualname, self_name=sn, module=f.module, nearsql_roots=roots)

    def judge(self, f, expr, what: str, rule="C14-S1", mode="val", allow_params: Set[str] = frozenset()):
        """slice expr in f; record verdict"""
        sc = self.scope_for(f)
        before = len(self.slicer.rewrites)
        leaves = self.slicer.leaves(sc, expr, mode)
        rewrites = self.slicer.rewrites[before:]
        del self.slicer.rewrites[before:]
        self.sink_count += 1
        self.leaf_count += len(leaves)
        bad = []
        for l in sorted(leaves, key=str):
            k = l[0]
            if k in ("const", "num", "san", "gen", "config"):
                continue
            if k == "nsfield":
                self.ns_demands.setdefault(l[1], f.qualname)
                continue
            if k == "global":
                if l[1] in ("data_algebra.__version__",) or l[1].split(".")[0] in ("data_algebra", "math", "np", "numpy"):
                    continue
                bad.append((l, f"module-level name {l[1]}"))
                continue
            if k == "param":
                p = l[2]
                if (f.qualname, "param:" + p) in TRIAGE or p in allow_params:
                    continue
                if l[1] != f.qualname:
                    # parameter of an inlined/nested helper that stayed unbound: treat as the helper's own contract
                    continue
                ann = {a.arg: unparse(a.annotation) for a in f.node.args.args + f.node.args.kwonlyargs if a.annotation is not None}
                a_ = f.node.args
                dflt = {x.arg: d for x, d in zip(a_.kwonlyargs, a_.kw_defaults) if d is not None}
                pos_ = a_.posonlyargs + a_.args
                dflt.update({x.arg: d for x, d in zip(pos_[len(pos_) - len(a_.defaults):], a_.defaults)})
                num_default = isinstance(dflt.get(p), ast.Constant) and isinstance(dflt[p].value, (int, float)) and not isinstance(dflt[p].value, bool)
                if num_default or ann.get(p) in ("int", "Optional[int]", "float", "Optional[float]", "bool"):
                    continue  # a number by declared type (row limits): not a string literal or a name
                if f.name in TEXT_FUNCS or f.module.name == "near_sql":
                    # a text builder splices this parameter verbatim: its call sites owe SQL (checked as a demand)
                    self.param_demands.setdefault((f.name, p), f.qualname)
                else:
                    bad.append((("param", f.qualname, p), f"the caller-supplied value `{p}`"))
                continue
            if k == "field":
                path = l[2]
                if (f.qualname, "field:" + path) in TRIAGE or path in NUMERIC_FIELDS:
                    continue
                if any(path.endswith("." + fs) for fs in self.field_sanitised):
                    continue
                if (f.qualname, path) in self.numeric_guarded:
                    continue
                bad.append((l, f"user data `{path}`"))
                continue
            if k == "keyalias":
                if not self.keyalias_ok:
                    bad.append((("field", f.qualname, "terms[k] = k"), "a raw column name stored as a term (pass-through terms are None; a name is not SQL text)"))
                continue
            if k == "call":
                continue  # an unmodelled call contributes its arguments' leaves; the call itself is recorded below
            if k == "other":
                continue
        unknown_calls = sorted({l[1] for l in leaves if l[0] == "call"})
        san = any(l[0] in ("san", "gen", "nsfield") for l in leaves)
        return leaves, bad, unknown_calls, rewrites, san

    def report(self, f, expr, what, rule="C14-S1", mode="val", allow_params=frozenset()):
        leaves, bad, unknown, rewrites, san = self.judge(f, expr, what, rule, mode, allow_params)
        res = self.res
        if bad:
            for (l, why) in bad:
                res.fail_at(rule, f, f"unsanitised:{what}:{l[2] if len(l) > 2 else l[1]}",
                            f"{what} in {f.qualname} is built from {why} without passing through quote_identifier / quote_string / "
                            f"value_to_sql / expr_to_sql: the text is spliced into the SQL as written by the user", expr)
        else:
            kinds = sorted({l[0] + (":" + l[1] if l[0] in ("san", "gen") else "") for l in leaves})
            res.ok(rule, f"{f.qualname}: {what} <- {{{', '.join(kinds)}}}" + (f" (unmodelled calls: {', '.join(unknown)})" if unknown else ""))
        return leaves, rewrites, san


def _side_conditions(program, res, eng):
    """facts the triage relies on, re-derived from the source on every run"""
    # (a) enc_term_ decides "this is the column itself" by the term being absent (None), never by comparing the term's SQL text with the
    # column name: the text of an expression can coincide with a name (extend({'1': '1'}) has the term `1` under the name '1')
    et = eng.sm.methods["enc_term_"]
    from .. import pat
    kparam = [p_ for p_ in et.params() if p_ not in ("self", "terms")][0]
    cmp_ = [n for n in ast.walk(et.node) if isinstance(n, ast.Compare) and len(n.ops) == 1 and isinstance(n.ops[0], (ast.Eq, ast.NotEq))
            and any(isinstance(x, ast.Name) and x.id == kparam for x in [n.left] + list(n.comparators))]
    none_branch = any(isinstance(n, ast.If) and "is None" in unparse(n.test) and any(
        isinstance(b_, ast.Return) and unparse(b_.value) == f"self.quote_identifier({kparam})" for b_ in n.body) for n in ast.walk(et.node))
    if cmp_:
        res.fail_at("C14-S1", et, "term-text-compared-with-column-name",
                    f"enc_term_ treats a term whose SQL text equals the column name (`{unparse(cmp_[0])}`) as the column itself and emits only the quoted name: "
                    f"extend({{'1': '1'}}) emits `\"1\"` instead of `1 AS \"1\"` — an identifier where a literal was written (SQLite returns a column named "
                    f"'\"1\"' holding the string '1')", cmp_[0])
    elif none_branch:
        res.ok("C14-S1", "enc_term_: a pass-through term is None and is emitted as quote_identifier(name); computed terms are always `text AS name`")
    else:
        res.fail_at("C14-S1", et, "enc-term-passthrough", "enc_term_ no longer emits quote_identifier(name) for a pass-through (None) term")
    eng.keyalias_ok = False   # a raw column name stored as a term (terms[k] = k) would be spliced unquoted, or trigger the comparison above
    # (b) field-level sanitiser: jointype is only ever a constant or the result of standardize_join_type, which admits a fixed vocabulary
    sj = program.module("expr_rep").functions.get("standardize_join_type")
    if sj is None:
        raise AnalysisError("anchor vanished: expr_rep.standardize_join_type")
    g = cfgmod.build(sj.node)
    vocab_guard = None
    for n in g.stmt_nodes(("test",)):
        c = n.cond
        if isinstance(c, ast.Compare) and len(c.ops) == 1 and isinstance(c.ops[0], ast.NotIn) and isinstance(n.stmt, ast.If) \
                and any(isinstance(b, ast.Raise) for b in n.stmt.body):
            # the right side must be a set of string constants (possibly through a local)
            r = c.comparators[0]
            if isinstance(r, ast.Name):
                rname = r.id
                for st in ast.walk(sj.node):
                    if isinstance(st, ast.Assign) and isinstance(st.targets[0], ast.Name) and st.targets[0].id == rname and isinstance(st.value, (ast.Set, ast.List, ast.Tuple)):
                        r = st.value
            if isinstance(r, (ast.Set, ast.List, ast.Tuple)) and all(isinstance(e, ast.Constant) and isinstance(e.value, str)
                                                                     and re.fullmatch(r"[A-Za-z ]+", e.value) for e in r.elts):
                vocab_guard = n
    stores_ok = True
    n_stores = 0
    for f in program.all_functions():
        for st in ast.walk(f.node):
            if isinstance(st, ast.Assign):
                for t in st.targets:
                    if isinstance(t, ast.Attribute) and t.attr == "jointype":
                        n_stores += 1
                        v = st.value
                        if not (isinstance(v, ast.Constant) and isinstance(v.value, str) and re.fullmatch(r"[A-Za-z ]+", v.value)) and not (
                                isinstance(v, ast.Call) and (dotted_name(v.func) or "").endswith("standardize_join_type")):
                            stores_ok = False
                            res.fail_at("C14-S1", f, "jointype-store", f"`{unparse(st)[:70]}` stores a join type that did not pass standardize_join_type; "
                                        "natural_join_to_near_sql splices jointype into the SQL as a keyword", st)
    if vocab_guard is not None and all(g.dominates(vocab_guard.id, r.id) for r in g.returns()) and stores_ok and n_stores >= 1:
        eng.field_sanitised.add("jointype")
        res.ok("C14-S1", f"jointype is assigned only from standardize_join_type (fixed keyword vocabulary, raise otherwise) or constants ({n_stores} stores)")
    elif stores_ok:
        res.fail_at("C14-S1", sj, "jointype-vocabulary", "standardize_join_type no longer rejects names outside a constant vocabulary before returning")
    # (c) numeric by comparison: _db_lag_expr uses `periods` only under a numeric comparison (a str raises TypeError there)
    lag = program.module("sql_model").functions.get("_db_lag_expr")
    if lag is not None:
        # the local bound to the second argument's value (`periods = expression.args[1].value`)
        pv = [e["_P"] for (_n, e) in pat.find("_P = expression.args[1].value", lag.node)]
        pname = pv[0] if pv else None
        uses = [n for n in ast.walk(lag.node) if isinstance(n, ast.FormattedValue) and pname is not None
                and any(isinstance(x, ast.Name) and x.id == pname for x in ast.walk(n.value))]
        guarded = True
        parents = {}
        for n in ast.walk(lag.node):
            for ch in ast.iter_child_nodes(n):
                parents[ch] = n
        for u in uses:
            x = u
            okg = False
            while x in parents:
                pnode = parents[x]
                if isinstance(pnode, ast.If) and isinstance(pnode.test, ast.Compare) and isinstance(pnode.test.left, ast.Name) \
                        and pnode.test.left.id == pname and isinstance(pnode.test.ops[0], (ast.Lt, ast.Gt, ast.LtE, ast.GtE)) \
                        and isinstance(pnode.test.comparators[0], ast.Constant) and isinstance(pnode.test.comparators[0].value, (int, float)):
                    okg = True
                x = pnode
            guarded = guarded and okg
        if uses and guarded:
            eng.numeric_guarded.add(("_db_lag_expr", "expression.args.value"))
            res.ok("C14-S1", f"_db_lag_expr: `{pname}` reaches the SQL only under an ordering comparison with a number (a str raises TypeError)")


def _formatter_functions(program) -> Dict[int, Tuple[str, object]]:
    out = {}
    for mod, cls in DIALECTS:
        d = Dialect(program, mod, cls)
        for op, entry in d.formatters.items():
            m, node = entry
            if isinstance(node, ast.Name) and node.id in m.functions:
                f = m.functions[node.id]
                out.setdefault(id(f.node), (f"{cls}:{op}", f))
            elif isinstance(node, ast.Lambda):
                out.setdefault(id(node), (f"{cls}:{op}", (m, node)))
    return out


def _s1(program, res):
    eng = Engine(program, res)
    sm = eng.sm
    _side_conditions(program, res, eng)
    text_rewrites = []
    # A. text builders of the base model and dialect overrides
    sinks = []
    for name in TEXT_FUNCS:
        m = sm.methods.get(name)
        if m is None:
            raise AnalysisError(f"anchor vanished: SQLModel.{name}")
        sinks.append(m)
    dialect_classes = [program.cls(mod, cls) for mod, cls in DIALECTS] + [program.cls("db_model", "DBModel")]
    for c in dialect_classes:
        for name, m in c.methods.items():
            if name in TEXT_FUNCS:
                sinks.append(m)
    for m in sinks:
        res.analysed(m)
        rets = T.returns_of(m.node)
        for i, r in enumerate(rets):
            leaves, rw, san = eng.report(m, r, f"return #{i + 1}" if len(rets) > 1 else "returned text")
            text_rewrites += [(m, c, w, tl) for (c, w, tl) in rw]
    # B. formatter functions of every dialect
    fmts = _formatter_functions(program)
    nf = 0
    for _id, (label, f) in sorted(fmts.items(), key=lambda kv: kv[1][0]):
        if isinstance(f, tuple):
            continue
        nf += 1
        res.analysed(f)
        for r in T.returns_of(f.node):
            leaves, rw, san = eng.report(f, r, "formatter result")
            text_rewrites += [(f, c, w, tl) for (c, w, tl) in rw]
    res.expect_count("C14-S1", "formatter functions sliced", nf, 40)
    # near_sql.convert_subsql and friends
    ns = program.module("near_sql")
    for c in ns.classes.values():
        for name in ("convert_subsql",):
            m = c.methods.get(name)
            if m is not None:
                res.analysed(m)
                for r in T.returns_of(m.node):
                    eng.report(m, r, "returned text")
    # C/D. demands, to a fixpoint
    done_ns: Set[str] = set()
    done_pd: Set[Tuple[str, str]] = set()
    generator_modules = [program.module(n) for n in ("sql_model", "near_sql", "db_model", "SQLite", "PostgreSQL", "MySQL", "BigQuery", "SparkSQL")
                         if n in program.modules]
    all_funcs = [f for f in program.all_functions() if f.module in generator_modules]
    n_ctor = 0
    n_calls = 0
    for _round in range(6):
        new_ns = set(eng.ns_demands) - done_ns
        new_pd = set(eng.param_demands) - done_pd
        if not new_ns and not new_pd:
            break
        done_ns |= new_ns
        done_pd |= new_pd
        for f in all_funcs:
            for node in ast.walk(f.node):
                if isinstance(node, (ast.FunctionDef, ast.AsyncFunctionDef)) and node is not f.node:
                    continue
                if isinstance(node, ast.Call):
                    callee = dotted_name(node.func) or ""
                    last = callee.split(".")[-1]
                    if last.startswith("NearSQL") and "near_sql" in callee or (f.module.name == "near_sql" and last.startswith("NearSQL")):
                        for kw in node.keywords:
                            if kw.arg in new_ns:
                                n_ctor += 1
                                eng.report(f, kw.value, f"{last}({kw.arg}=…)", mode="val")
                    if isinstance(node.func, ast.Attribute):
                        for (fn, p) in new_pd:
                            if node.func.attr == fn:
                                target = eng.slicer.method(fn)
                                arg = None
                                for kw in node.keywords:
                                    if kw.arg == p:
                                        arg = kw.value
                                if arg is None and target is not None:
                                    pos = [a.arg for a in target.node.args.posonlyargs + target.node.args.args][1:]
                                    if p in pos and pos.index(p) < len(node.args):
                                        arg = node.args[pos.index(p)]
                                if arg is not None:
                                    n_calls += 1
                                    eng.report(f, arg, f"argument {p}= of {fn}(…)")
                if isinstance(node, ast.Assign):
                    for t in node.targets:
                        if isinstance(t, ast.Attribute) and t.attr in new_ns and not (isinstance(t.value, ast.Name) and t.value.id == "self" and f.module.name != "near_sql"):
                            # store into a NearSQL object field (subsql.terms = {...}); constructor self-stores are covered by the keywords
                            if isinstance(t.value, ast.Name) and t.value.id == "self":
                                continue
                            n_ctor += 1
                            eng.report(f, node.value, f"store .{t.attr} =", mode="val")
    res.extra["C14-S1 NearSQL fields spliced verbatim by emitters"] = sorted(done_ns)
    res.extra["C14-S1 parameters spliced verbatim (checked at call sites)"] = sorted(f"{a}.{b}" for a, b in done_pd)
    for need in ("terms", "suffix", "quoted_query_name", "quoted_table_name", "joiner"):
        if need not in done_ns:
            raise AnalysisError(f"emitters no longer read NearSQL field {need}: the sink model is stale")
    res.expect_count("C14-S1", "NearSQL constructor keywords / stores checked", n_ctor, 40)
    res.expect_count("C14-S1", "call-site arguments checked", n_calls, 8)
    # E. composed strings handed to the database
    n_exec = 0
    for f in all_funcs:
        for node in ast.walk(f.node):
            if isinstance(node, ast.Call) and isinstance(node.func, ast.Attribute) and node.func.attr in ("execute", "read_query", "read_sql_query"):
                arg = None
                for kw in node.keywords:
                    if kw.arg == "q":
                        arg = kw.value
                if arg is None:
                    cands = [a for a in node.args if isinstance(a, (ast.BinOp, ast.JoinedStr))]
                    arg = cands[0] if cands else None
                if arg is None or not isinstance(arg, (ast.BinOp, ast.JoinedStr)):
                    continue
                n_exec += 1
                eng.report(f, arg, f"text passed to {node.func.attr}", allow_params=SQL_TYPED_PUBLIC_PARAMS)
    res.expect_count("C14-S1", "composed statements handed to the database", n_exec, 4)
    res.extra["C14-S1 sinks sliced"] = eng.sink_count
    return eng, text_rewrites


def _s5(program, res, text_rewrites):
    n = 0
    seen_sites = set()
    slicer = T.Slicer(program, [program.cls("sql_model", "SQLModel")], nearsql_fields=_nearsql_fields(program))
    for (f, call, what, ctx) in text_rewrites:
        if (f.qualname, id(call)) in seen_sites:
            continue
        tleaves = T.fresh_leaves(slicer, ctx)
        seen_sites.add((f.qualname, id(call)))
        n += 1
        target = call.func.value if isinstance(call, ast.Call) and isinstance(call.func, ast.Attribute) and what not in T.RE_REWRITERS \
            else (call.args[-1] if isinstance(call, ast.Call) and call.args else getattr(call, "value", call))
        if any(l[0] in ("san", "gen", "nsfield") for l in tleaves):
            res.fail_at("C14-S5", f, f"rewrites-assembled-sql:{what}",
                        f"{f.qualname} applies `{what}` to `{unparse(target)[:60]}`, text that already contains quoted user literals / identifiers: "
                        f"a call that looks inside the string changes what the quotes protect (line breaks, blanks, case)", call)
        else:
            res.ok("C14-S5", f"{f.qualname}: `{what}` is applied to `{unparse(target)[:50]}`, which carries no quoted user text")
    # whole-package scan of the emit path: no split/splitlines over joined SQL in to_sql
    ts = program.cls("sql_model", "SQLModel").methods["to_sql"]
    for c in ast.walk(ts.node):
        if isinstance(c, ast.Call) and isinstance(c.func, ast.Attribute) and c.func.attr in ("splitlines", "split", "replace", "expandtabs") \
                and (ts.qualname, id(c)) not in seen_sites:
            n += 1
            eng = Engine(program, res)
            leaves = eng.slicer.leaves(eng.scope_for(ts), c.func.value)
            if any(l[0] in ("san", "gen", "nsfield") for l in leaves):
                res.fail_at("C14-S5", ts, f"rewrites-assembled-sql:{c.func.attr}",
                            f"to_sql applies `{c.func.attr}` to the assembled query `{unparse(c.func.value)[:60]}`", c)
    res.rule_count = n


def _s2(program, res):
    """no expression source built from user strings inside the generator"""
    mods = [program.module(n) for n in ("sql_model", "near_sql", "db_model", "SQLite", "PostgreSQL", "MySQL", "BigQuery", "SparkSQL")]
    n = 0
    eng = Engine(program, res)
    for f in program.all_functions():
        if f.module not in mods:
            continue
        for c in ast.walk(f.node):
            if isinstance(c, ast.Call) and isinstance(c.func, ast.Attribute) and c.func.attr in ("extend", "project", "select_rows", "extend_parsed_", "project_parsed_"):
                for a in list(c.args) + [k.value for k in c.keywords]:
                    dicts = [a] if isinstance(a, (ast.Dict, ast.DictComp)) else []
                    if c.func.attr == "select_rows" and isinstance(a, (ast.JoinedStr, ast.BinOp)):
                        dicts = [ast.Dict(keys=[ast.Constant("_")], values=[a])]
                    for d in dicts:
                        vals = d.values if isinstance(d, ast.Dict) else [d.value]
                        for v in vals:
                            n += 1
                            if isinstance(v, (ast.JoinedStr, ast.BinOp)) or (isinstance(v, ast.Call) and dotted_name(v.func) == "str"):
                                leaves = eng.slicer.leaves(eng.scope_for(f), v)
                                raw = [l for l in leaves if l[0] in ("field", "param")]
                                if raw:
                                    res.fail_at("C14-S2", f, f"expression-source-from-user-text:{c.func.attr}",
                                                f"{f.qualname} builds expression *source text* `{unparse(v)[:60]}` from user data "
                                                f"({T.show(raw[0])}) and has it parsed: quotes or operators in the text change the expression", v)
                                    continue
                            res.ok("C14-S2", f"{f.qualname}: value passed to {c.func.attr}() is `{unparse(v)[:50]}` (no user text turned into source)")
    res.expect_count("C14-S2", "ops values passed to builder calls inside the generator", n, 2)


def _s2c_literal_numbers_exact(program, res):
    """the literal printer of solutions.py turns values it does not know into Python numbers before printing: `float(v)` of an integer-kind numpy
    number prints `7.0` for 7 and loses the last digits beyond 2**53 — the constant in the generated expression is then another value (and another
    column type) than the caller's.  A float() conversion has to come after the integer / boolean kinds were taken out"""
    mod = program.module("solutions")
    f = mod.functions.get("_literal_text")
    if f is None:
        res.abstain("C14-S2b", "solutions._literal_text", "no literal printer of that name")
        return
    res.analysed(f)
    ps = f.params()
    conv = [c for c in ast.walk(f.node) if isinstance(c, ast.Call) and isinstance(c.func, ast.Name) and c.func.id == "float" and c.args
            and isinstance(c.args[0], ast.Name) and ps and c.args[0].id == ps[0]]
    if not conv:
        res.ok("C14-S2b", "_literal_text: no float() conversion of the value", nontrivial=False)
        return
    for c in conv:
        # a conversion that sits under a test for a floating kind converts floats only
        if any(isinstance(t_, ast.If) and "floating" in unparse(t_.test) and any(x is c for st in t_.body for x in ast.walk(st)) for t_ in ast.walk(f.node)):
            res.ok("C14-S2b", f"_literal_text: `{unparse(c)}` is applied to floating values only")
            continue
        earlier = []
        for st in f.node.body:
            if any(x is c for x in ast.walk(st)):
                break
            earlier.append(st)
        exact = [st for st in earlier if isinstance(st, ast.If) and any(k in unparse(st.test) for k in ("Integral", ".kind", "numpy.integer", "numpy.generic"))
                 and any(isinstance(a_, ast.Assign) and unparse(a_.targets[0]) == ps[0] and (".item()" in unparse(a_.value) or "int(" in unparse(a_.value)) for a_ in ast.walk(st))]
        if exact:
            res.ok("C14-S2b", "_literal_text: integer and boolean kinds become Python numbers of the same kind before anything is turned into a float")
        else:
            res.fail_at("C14-S2b", f, "literal-number-through-float:_literal_text",
                        f"`{unparse(c)}` converts every value that is not a built-in: numpy.int64(7) — what `df[col].max()` hands over — is printed as 7.0, "
                        f"2**53 + 1 loses its last digit, numpy.bool_ becomes 1.0, and the looked-up column comes back as float", c)


def _s2b_quoted_interpolation(program, res):
    """the library's own pipeline builders (solutions.py) write expressions as text.  A value of the caller pasted between quote characters into that
    text (`f'(c == "{mark}")'`) is expression *source*: a quote or a backslash in the value changes the expression.  Constants go in through the
    literal printer (Value(v).to_python()) or as terms"""
    mod = program.module("solutions")
    n = 0
    for f in program.all_functions():
        if f.module is not mod:
            continue
        params = set(f.params())
        for js in ast.walk(f.node):
            if not isinstance(js, ast.JoinedStr):
                continue
            vals = js.values
            for i, v in enumerate(vals):
                if not isinstance(v, ast.FormattedValue):
                    continue
                before = vals[i - 1].value if i > 0 and isinstance(vals[i - 1], ast.Constant) else ""
                after = vals[i + 1].value if i + 1 < len(vals) and isinstance(vals[i + 1], ast.Constant) else ""
                names = {x.id for x in ast.walk(v.value) if isinstance(x, ast.Name)}
                if not (names & params):
                    continue
                n += 1
                if before[-1:] in ("'", '"') and after[:1] == before[-1:]:
                    res.fail_at("C14-S2", f, f"value-pasted-between-quotes:{f.node.name}:{sorted(names & params)[0]}",
                                f"`{unparse(js)[:80]}` pastes the caller's `{sorted(names & params)[0]}` between quotes into expression source: marks 'S\" + \"T' / 'E\" + \"V' "
                                f"turn the test into `record_type == ('E' + 'V')`, a backslash or a quote in the mark leaves the stand-in values in the output or fails to parse", js)
                else:
                    res.ok("C14-S2", f"{f.node.name}: `{unparse(v.value)[:40]}` enters expression text as a name or through the literal printer", nontrivial=False)
    res.expect_count("C14-S2", "caller values formatted into expression text in solutions.py", n, 5)


LINE_BREAKS = ["\n", "\r", "\r\n", "\x0b", "\x0c", "\x1c", "\x1d", "\x1e", "\x85", " ", " "]


def _s3(program, res):
    mod = program.module("sql_model")
    ca = mod.functions.get("_clean_annotation")
    if ca is None:
        raise AnalysisError("anchor vanished: sql_model._clean_annotation")
    res.analysed(ca)
    g = cfgmod.build(ca.node)
    p = ca.params()[0]
    # the statement that removes line breaks
    breakers = []
    for n in g.stmt_nodes(("stmt",)):
        st = n.stmt
        if isinstance(st, ast.Assign) and isinstance(st.targets[0], ast.Name) and st.targets[0].id == p and isinstance(st.value, ast.Call) \
                and dotted_name(st.value.func) == "re.sub" and len(st.value.args) == 3 and isinstance(st.value.args[0], ast.Constant) \
                and isinstance(st.value.args[1], ast.Constant) and unparse(st.value.args[2]) == p:
            pat, repl = st.value.args[0].value, st.value.args[1].value
            try:
                rx = re.compile(pat)
            except re.error:
                continue
            # the pattern is a constant of the source; decide coverage of every line terminator on the pattern itself
            missing = [repr(ch) for ch in LINE_BREAKS if rx.sub(repl, "a" + ch + "b").count("\n") + rx.sub(repl, "a" + ch + "b").count("\r") > 0
                       or any(t in rx.sub(repl, "a" + ch + "b") for t in LINE_BREAKS)]
            breakers.append((n, pat, repl, missing))
    good = [b for b in breakers if not b[3]]
    if not good:
        why = f"pattern {breakers[0][1]!r} leaves {', '.join(breakers[0][3])}" if breakers else "no `annotation = re.sub(<const>, <const>, annotation)` statement"
        res.fail_at("C14-S3", ca, "annotation-keeps-line-breaks",
                    f"_clean_annotation does not remove every line break ({why}): text after `--` can end the comment and continue as SQL")
    else:
        n0 = good[0][0]
        ok = True
        for r in g.returns():
            v = r.stmt.value
            if v is None or (isinstance(v, ast.Constant) and v.value is None):
                continue
            if isinstance(v, ast.Name) and v.id == p and not g.dominates(n0.id, r.id):
                # early `return annotation` under `annotation is None`
                guards = [unparse(b.cond) for b, _l in g.lexical_guards(r)]
                if any("is None" in c for c in guards):
                    continue
            if not g.dominates(n0.id, r.id) or p not in {x.id for x in ast.walk(v) if isinstance(x, ast.Name)}:
                ok = False
                res.fail_at("C14-S3", ca, "cleaned-text-not-returned", f"`{unparse(r.stmt)}` does not return the text that went through the line-break removal", r.stmt)
        # later rewrites must not re-introduce a line break
        for n in g.stmt_nodes(("stmt",)):
            st = n.stmt
            if n.id != n0.id and n0.id in g.dominators()[n.id] and isinstance(st, ast.Assign) and isinstance(st.targets[0], ast.Name) and st.targets[0].id == p:
                consts = [c.value for c in ast.walk(st.value) if isinstance(c, ast.Constant) and isinstance(c.value, str)]
                if p not in {x.id for x in ast.walk(st.value) if isinstance(x, ast.Name)} or any(any(t in c for t in LINE_BREAKS) for c in consts[1:]):
                    ok = False
                    res.fail_at("C14-S3", ca, "cleaned-text-overwritten", f"`{unparse(st)[:70]}` after the line-break removal replaces or re-breaks the cleaned text", st)
        if ok:
            res.ok("C14-S3", f"_clean_annotation: re.sub({good[0][1]!r}, {good[0][2]!r}) removes every line terminator and dominates every text return")
    # does the cleaner also neutralise a block-comment terminator?
    block_safe = any(isinstance(c, ast.Call) and ((isinstance(c.func, ast.Attribute) and c.func.attr == "replace" and c.args
                                                    and isinstance(c.args[0], ast.Constant) and c.args[0].value == "*/")
                                                   or (dotted_name(c.func) == "re.sub" and c.args and isinstance(c.args[0], ast.Constant)
                                                       and "\\*/" in str(c.args[0].value))) for c in ast.walk(ca.node))
    # comment sites: constants containing `--` or `/*`
    eng = Engine(program, res)
    n_sites = 0
    for f in program.all_functions():
        if f.module.name not in ("sql_model", "near_sql", "db_model", "SQLite", "PostgreSQL", "MySQL", "BigQuery", "SparkSQL"):
            continue
        inner_adds = {id(ch) for n_ in ast.walk(f.node) if isinstance(n_, ast.BinOp) and isinstance(n_.op, ast.Add)
                      for ch in (n_.left, n_.right) if isinstance(ch, ast.BinOp) and isinstance(ch.op, ast.Add)}
        for node in ast.walk(f.node):
            parts = None
            opener = None
            if isinstance(node, ast.BinOp) and isinstance(node.op, ast.Add):
                if id(node) in inner_adds:
                    continue
                ops_ = []
                stack_ = [node]
                while stack_:
                    x_ = stack_.pop()
                    if isinstance(x_, ast.BinOp) and isinstance(x_.op, ast.Add):
                        stack_.append(x_.right)
                        stack_.append(x_.left)
                    else:
                        ops_.append(x_)
                first = ops_[0]
                if isinstance(first, ast.Constant) and isinstance(first.value, str) and ("--" in first.value or "/*" in first.value):
                    opener = "/*" if "/*" in first.value else "--"
                    parts = [o for o in ops_[1:] if not isinstance(o, ast.Constant)]
            elif isinstance(node, ast.JoinedStr) and node.values and isinstance(node.values[0], ast.Constant) and (
                    "--" in str(node.values[0].value) or "/*" in str(node.values[0].value)):
                parts = [v.value for v in node.values if isinstance(v, ast.FormattedValue)]
                opener = "/*" if "/*" in str(node.values[0].value) else "--"
            if not parts:
                continue
            n_sites += 1
            if opener == "/*" and not block_safe:
                res.fail_at("C14-S3", f, "block-comment-text-can-close-the-comment",
                            f"{f.qualname} places `{unparse(parts[0])[:50]}` inside a /* … */ comment; _clean_annotation removes line breaks only, so a `*/` in the "
                            f"text (the repr of a user literal, a column name, a label) closes the comment and the rest is read as SQL", node)
                continue
            bad = []
            for pt in parts:
                for l in eng.slicer.leaves(eng.scope_for(f), pt):
                    if l[0] in ("const", "num", "config", "global"):
                        continue
                    if l == ("san", "_clean_annotation"):
                        continue
                    bad.append(l)
            if bad:
                res.fail_at("C14-S3", f, f"comment-text-not-cleaned:{T.show(bad[0])}",
                            f"{f.qualname} places `{unparse(parts[0])[:50]}` after `--` without _clean_annotation ({T.show(bad[0])}): a line break in it ends the comment", node)
            else:
                res.ok("C14-S3", f"{f.qualname}: comment `{unparse(node)[:50]}` is constant / configuration / cleaned")
    res.expect_count("C14-S3", "comment sites", n_sites, 5)


def _s4(program, res, known_style=True):
    for mod, cls in DIALECTS:
        d = Dialect(program, mod, cls)
        c = program.cls(mod, cls)
        sq = d.const_kwarg("string_quote")
        iq = d.const_kwarg("identifier_quote")
        if not isinstance(sq, str) or not isinstance(iq, str):
            raise AnalysisError(f"{cls}: string_quote / identifier_quote not constant")
        qs = c.find_method("quote_string")
        qi = c.find_method("quote_identifier")
        res.analysed(qs)
        res.analysed(qi)
        # quote_string: characters rewritten
        escaped: Set[str] = set()
        wraps = False
        for r in T.returns_of(qs.node):
            txt = unparse(r)
            if txt.startswith("self.string_quote +") and txt.endswith("+ self.string_quote"):
                wraps = True
            for call in ast.walk(r):
                if isinstance(call, ast.Call) and dotted_name(call.func) in ("re.sub",) and len(call.args) == 3:
                    pat, rep = unparse(call.args[0]), unparse(call.args[1])
                    if pat == "self.string_quote" and rep == "self.string_quote + self.string_quote":
                        if sq in ".^$*+?{}[]\\|()":
                            res.fail_at("C14-S4", qs, f"{cls}:quote-is-regex-metachar", f"{cls}: string_quote {sq!r} is used as a regular expression")
                        escaped.add("quote-doubled")
                    elif isinstance(call.args[0], ast.Constant):
                        escaped.add(call.args[0].value)
                if isinstance(call, ast.Call) and isinstance(call.func, ast.Attribute) and call.func.attr == "replace" and len(call.args) == 2:
                    a0, a1 = call.args
                    if unparse(a0) == "self.string_quote" and unparse(a1) == "self.string_quote + self.string_quote":
                        escaped.add("quote-doubled")
                    elif unparse(a0) == "self.string_quote" and isinstance(a1, ast.BinOp) and isinstance(a1.left, ast.Constant) and a1.left.value == "\\" \
                            and unparse(a1.right) == "self.string_quote":
                        # the backslashes of the value have to be doubled *before* this adds its own (the inner call of the chain runs first)
                        inner_first = any(isinstance(c2, ast.Call) and isinstance(c2.func, ast.Attribute) and c2.func.attr == "replace" and c2.args
                                          and isinstance(c2.args[0], ast.Constant) and c2.args[0].value == "\\" for c2 in ast.walk(call.func.value))
                        later = any(isinstance(c2, ast.Call) and isinstance(c2.func, ast.Attribute) and c2.func.attr == "replace" and c2.args
                                    and isinstance(c2.args[0], ast.Constant) and c2.args[0].value == "\\" and any(x is call for x in ast.walk(c2.func.value))
                                    for c2 in ast.walk(r))
                        if later and not inner_first:
                            res.fail_at("C14-S4", qs, f"{cls}:escape-order",
                                        f"{cls}: quote_string backslash-escapes the quote and doubles backslashes afterwards: the escape's own backslash is doubled and the quote ends the literal")
                        escaped.add("quote-backslashed")
                    elif isinstance(a0, ast.Constant):
                        escaped.add(a0.value)
        # statements before the return may also rewrite `string`
        for st in ast.walk(qs.node):
            if isinstance(st, ast.Assign) and isinstance(st.value, ast.Call) and isinstance(st.value.func, ast.Attribute) \
                    and st.value.func.attr == "replace" and len(st.value.args) == 2 and isinstance(st.value.args[0], ast.Constant):
                escaped.add(st.value.args[0].value)
        if not wraps:
            res.fail_at("C14-S4", qs, f"{cls}:literal-not-wrapped", f"{cls}: quote_string does not return string_quote + … + string_quote")
        style = facts.QUOTE_ESCAPE_STYLE.get(cls, {"double"})
        if "quote-backslashed" in escaped and "backslash" in style:
            res.ok("C14-S4", f"{cls}: the string quote {sq!r} inside a literal is escaped with a backslash, which the dialect reads as one quote")
        elif "quote-backslashed" in escaped:
            res.fail_at("C14-S4", qs, f"{cls}:quote-backslash-not-dialect", f"{cls}: a {sq} inside a literal is written as \\{sq}; this dialect has no backslash escapes")
        elif "quote-doubled" in escaped and "double" in style:
            res.ok("C14-S4", f"{cls}: the string quote {sq!r} inside a literal is doubled, which the dialect reads as one quote")
        elif "quote-doubled" in escaped:
            res.fail_at("C14-S4", qs, f"{cls}:quote-doubling-not-dialect",
                        f"{cls}: a {sq} inside a literal is written as {sq}{sq}; this dialect escapes quotes with a backslash and does not read a doubled quote as one quote")
        else:
            res.fail_at("C14-S4", qs, f"{cls}:quote-not-escaped", f"{cls}: quote_string does not escape the string quote {sq!r}")
        for ch in sorted(facts.STRING_LITERAL_SPECIALS.get(cls, set())):
            if ch in escaped:
                res.ok("C14-S4", f"{cls}: {ch!r} is special inside a literal and is rewritten")
            else:
                nm = {"\\": "backslash", "\n": "newline", "\r": "carriage-return"}.get(ch, repr(ch))
                res.fail_at("C14-S4", qs, f"{cls}:{nm}",
                            f"{cls}: {ch!r} is special inside a {sq}…{sq} literal of this dialect and quote_string leaves it as is: the value read back differs "
                            f"(or the literal does not end where intended)")
        # quote_identifier: rejects the quote character, wraps.  An override that only refuses more names and hands the name on unchanged to an
        # implementation up the hierarchy (`return <Base>.quote_identifier(self, identifier)` / super()) is judged by that implementation
        hops = 0
        while hops < 3:
            rets_ = T.returns_of(qi.node)
            deleg = [r for r in rets_ if isinstance(r, ast.Call) and isinstance(r.func, ast.Attribute) and r.func.attr == "quote_identifier"
                     and [unparse(a) for a in r.args][-1:] == [qi.params()[1]]]
            if not rets_ or len(deleg) != len(rets_):
                break
            base_name = unparse(deleg[0].func.value).split(".")[-1].replace("super()", "")
            nxt = None
            for b_ in qi.cls.mro()[1:]:
                m_ = b_.methods.get("quote_identifier")
                if m_ is not None and (not base_name or True):
                    nxt = m_
                    break
            if nxt is None:
                break
            qi, hops = nxt, hops + 1
        t = unparse(qi.node)
        rejects = any(isinstance(n, ast.If) and "self.identifier_quote in identifier" in unparse(n.test)
                      and any(isinstance(b, ast.Raise) for b in n.body) for n in ast.walk(qi.node))
        wraps_i = any(unparse(r) == "self.identifier_quote + identifier + self.identifier_quote" for r in T.returns_of(qi.node))
        if rejects and wraps_i:
            res.ok("C14-S4", f"{cls}: quote_identifier ({qi.qualname}) rejects names containing {iq!r} and wraps the rest unchanged")
        else:
            res.fail_at("C14-S4", qi, f"{cls}:identifier-quote", f"{cls}: {qi.qualname} no longer rejects the quote character and wraps the name verbatim")
        mod_name = mod
        own_qi = c.methods.get("quote_identifier")
        for (consts, why) in facts.IDENTIFIER_REFUSALS.get(cls, []):
            refused = own_qi is not None and any(
                isinstance(iff, ast.If) and any(isinstance(b_, ast.Raise) for b_ in iff.body)
                and consts <= {str(k.value).lower() for k in ast.walk(iff.test) if isinstance(k, ast.Constant) and isinstance(k.value, str)}
                for iff in ast.walk(own_qi.node))
            if refused:
                res.ok("C14-S4", f"{cls}: quote_identifier refuses the names the dialect cannot refer to ({sorted(consts)})")
            else:
                res.fail("C14-S4", f"{mod_name}:{cls}", f"{cls}:identifier-not-refused:{'/'.join(sorted(consts))}",
                         f"{cls}: no quoting makes a name {sorted(consts)} refer to the column, and quote_identifier does not refuse it — {why}", f"data_algebra/{mod_name}.py", 0)
        for ch in sorted(facts.IDENTIFIER_SPECIALS.get(cls, set())):
            nm = {"\\": "backslash"}.get(ch, repr(ch))
            res.fail_at("C14-S4", qi, f"{cls}:identifier-{nm}",
                        f"{cls}: {ch!r} is an escape character inside {iq}…{iq} identifiers of this dialect and quote_identifier leaves it as is")


def _s4c(program, res):
    """the sanitisers themselves carry the text through unchanged (apart from the escaping substitution)"""
    classes = [program.cls("sql_model", "SQLModel"), program.cls("db_model", "DBModel")] + [program.cls(m, c) for m, c in DIALECTS]
    n = 0
    for c in classes:
        for name in ("quote_identifier", "quote_table_name", "get_table_name", "quote_string"):
            m = c.methods.get(name)
            if m is None:
                continue
            n += 1
            res.analysed(m)
            bad = []
            for node in ast.walk(m.node):
                if isinstance(node, ast.Raise):
                    continue
                if isinstance(node, ast.Call) and isinstance(node.func, ast.Attribute) and node.func.attr in T.REWRITERS \
                        and not (isinstance(node.func.value, ast.Constant)):
                    def _escape_operand(a):
                        if isinstance(a, ast.Constant) or unparse(a).startswith("self."):
                            return True
                        return isinstance(a, ast.BinOp) and isinstance(a.op, ast.Add) and _escape_operand(a.left) and _escape_operand(a.right)

                    if name == "quote_string" and node.func.attr == "replace" and len(node.args) == 2 and all(_escape_operand(a) for a in node.args):
                        continue  # an escaping substitution (judged by S4)
                    if node.func.attr == "format":
                        continue
                    bad.append((node, node.func.attr))
                if isinstance(node, ast.Call) and (dotted_name(node.func) or "") in T.RE_REWRITERS:
                    if name == "quote_string" and dotted_name(node.func) == "re.sub":
                        continue  # judged by S4
                    bad.append((node, dotted_name(node.func)))
                if isinstance(node, ast.Subscript) and isinstance(node.slice, ast.Slice):
                    bad.append((node, "slice"))
            # raise statements may format the name into a message: exclude calls inside them
            in_raise = set()
            for r in ast.walk(m.node):
                if isinstance(r, ast.Raise):
                    for x in ast.walk(r):
                        in_raise.add(id(x))
            # ... and a call inside the test of a refusal (`if name.lower() in (...): raise`) inspects the text, it does not rewrite what is returned
            in_refusal_test = set()
            for iff in ast.walk(m.node):
                if isinstance(iff, ast.If) and iff.body and all(isinstance(b_, ast.Raise) for b_ in iff.body) and not iff.orelse:
                    for x in ast.walk(iff.test):
                        in_refusal_test.add(id(x))
            bad = [(nd, w) for (nd, w) in bad if id(nd) not in in_raise and id(nd) not in in_refusal_test]
            if bad:
                nd, w = bad[0]
                res.fail_at("C14-S4", m, f"sanitiser-rewrites-text:{w}",
                            f"{m.qualname} applies `{w}` to the text it is quoting (`{unparse(nd)[:60]}`): the name / value is no longer carried as one "
                            f"verbatim token (a character that is legal inside the quotes changes the structure)", nd)
            else:
                res.ok("C14-S4", f"{m.qualname}: the quoted text is carried whole (no split / case / strip / slice on it)")
    res.expect_count("C14-S4", "sanitiser bodies inspected", n, 5)


def run(program, res, tier):
    res.rule("C14-S1", "every leaf of every SQL text sink is constant, configuration, numeric, sanitised or generated")
    res.rule("C14-S2", "no expression source text built from user strings inside the generator")
    _s2b_quoted_interpolation(program, res)
    _s2c_literal_numbers_exact(program, res)
    res.rule("C14-S3", "comment text is constant, configuration or cleaned of line breaks")
    res.rule("C14-S4", "quote_string / quote_identifier cover the dialect's special characters")
    res.rule("C14-S5", "no string-inspecting rewrite of assembled SQL")
    Engine.DEPTH = 8 if tier == "thorough" else 4  # helper inlining depth of the slicer
    res.extra["C14 helper inlining depth"] = Engine.DEPTH
    eng, rewrites = _s1(program, res)
    _s2(program, res)
    _s3(program, res)
    _s4(program, res)
    _s4c(program, res)
    _s5(program, res, rewrites)
