"""C16 natural_join matches SQL join semantics on every backend — structural clauses."""
from __future__ import annotations

import ast
from typing import Dict

from .. import cfg as cfgmod
from .. import pat
from .. import deps as depsmod
from .. import facts, sqlexpr
from ..index import AnalysisError, dotted_name, unparse, inline_local_consts

EXPLANATION = (
    "S1 join-type vocabulary: the set accepted by standardize_join_type is mapped by each back end (Pandas "
    "standardize_join_code_, Polars `how`, SQL joiner = jointype + ' JOIN', SQLite's RIGHT/FULL rewrites) to "
    "that back end's join of the same meaning (frozen expected map; deviations are findings). S2 paired-field "
    "rewrite: a function that stores permuted `sources` into a copied join node must store the correspondingly "
    "permuted on_a/on_b. S3 coalesce direction: in each back end the primary operand of the coalesce of a "
    "shared non-key column derives from the left input (SQL: the first coalesce operand is the left alias "
    "exactly when left_is_first; COALESCE template keeps argument order; Pandas: nulls of the left column are "
    "filled from the suffixed right twin; Polars: both branches). S3b the suffixed twin of a shared column "
    "is cleaned up unless it is an equal-named key *pair* (decided on zip(on_a, on_b), not on the two key sets). "
    "S4 third-party API contracts on null keys (pandas.merge matches null keys, Polars full join does not "
    "coalesce keys, SQLite full-join emulation groups keys): recorded findings. "
    "Not decided: duplicate-key multiplicities and everything value-level."
)

# cross: the builder refuses keys for a CROSS join (checked below), so the executor merges on its constant scratch key, where the inner join is
# the cross product (all pairs; none when a side is empty).  An outer merge on that key pads the rows of a non-empty side when the other is empty.
EXPECTED_PANDAS = {"inner": ("inner",), "left": ("left",), "right": ("right",), "full": ("outer",), "outer": ("outer",), "cross": ("cross", "inner")}


def paired_field_rewrite(program, res):
    """S2: stores of permuted sources into a join-node copy must come with permuted key lists"""
    n = 0
    sqlm = program.cls("sql_model", "SQLModel")
    for cls in [sqlm] + program.subclasses(sqlm):
        for m in cls.methods.values():
            stores: Dict[str, Dict[str, ast.AST]] = {}
            for st in ast.walk(m.node):
                if isinstance(st, ast.Assign):
                    targets = st.targets
                    values = [st.value] * len(targets)
                    if len(targets) == 1 and isinstance(targets[0], ast.Tuple) and isinstance(st.value, ast.Tuple):
                        targets, values = targets[0].elts, st.value.elts
                    for t, v in zip(targets, values):
                        if isinstance(t, ast.Attribute) and isinstance(t.value, ast.Name) and t.attr in ("sources", "on_a", "on_b", "jointype"):
                            stores.setdefault(t.value.id, {})[t.attr] = v
            for obj, fields in stores.items():
                if "sources" not in fields:
                    continue
                n += 1
                res.analysed(m)
                src_txt = unparse(fields["sources"])
                # permuted: [x.sources[1], x.sources[0]]
                swapped = isinstance(fields["sources"], (ast.List, ast.Tuple)) and len(fields["sources"].elts) == 2 \
                    and unparse(fields["sources"].elts[0]).endswith("sources[1]") and unparse(fields["sources"].elts[1]).endswith("sources[0]")
                if not swapped:
                    res.abstain("C16-S2", f"{m.qualname}: {obj}.sources = {src_txt}", "not a two-source swap")
                    continue
                a = unparse(fields["on_a"]) if "on_a" in fields else None
                b = unparse(fields["on_b"]) if "on_b" in fields else None
                if a is not None and b is not None and a.endswith(".on_b") and b.endswith(".on_a"):
                    res.ok("C16-S2", f"{m.qualname}: swapping {obj}.sources also swaps on_a/on_b")
                else:
                    res.fail_at("C16-S2", m, f"unpaired-swap:{obj}",
                                f"`{obj}.sources = {src_txt}` swaps the two inputs, but the key lists are set to on_a={a}, on_b={b}: "
                                f"with differently named keys the ON clause pairs each key with the wrong table", fields["sources"])
    res.expect_count("C16-S2", "join-node source rewrites", n, 1)


def join_type_image(program):
    """the join types standardize_join_type can *return*: its allowed set, with the spellings it rewrites replaced by what it rewrites them to
    (`if join_str == "OUTER": join_str = "FULL"`)"""
    sj = program.func("expr_rep", "standardize_join_type")
    allowed = None
    for st in ast.walk(sj.node):
        if isinstance(st, ast.Assign) and isinstance(st.value, ast.Set):
            allowed = {e.value for e in st.value.elts if isinstance(e, ast.Constant)}
    if not allowed:
        raise AnalysisError("standardize_join_type: allowed set literal not found")
    param = sj.params()[0]
    image = set(allowed)
    for st in ast.walk(sj.node):
        if isinstance(st, ast.If) and isinstance(st.test, ast.Compare) and len(st.test.ops) == 1 and isinstance(st.test.ops[0], ast.Eq) \
                and isinstance(st.test.left, ast.Name) and st.test.left.id == param and isinstance(st.test.comparators[0], ast.Constant):
            frm = st.test.comparators[0].value
            tos = [a.value.value for a in st.body if isinstance(a, ast.Assign) and isinstance(a.targets[0], ast.Name) and a.targets[0].id == param
                   and isinstance(a.value, ast.Constant)]
            if tos and frm in image:
                image.discard(frm)
                image.add(tos[-1])
    return allowed, image


def _cross_needs_empty_on(program) -> bool:
    """NaturalJoinNode refuses a CROSS join that names keys"""
    init = program.cls("view_representations", "NaturalJoinNode").methods["__init__"]
    for st in ast.walk(init.node):
        if isinstance(st, ast.If) and "CROSS" in unparse(st.test) and "on_a" in unparse(st.test) and any(isinstance(x, ast.Raise) for x in ast.walk(st)):
            return True
    return False


def _s1(program, res):
    sj = program.func("expr_rep", "standardize_join_type")
    res.analysed(sj)
    _accepted, allowed = join_type_image(program)   # what reaches the executors
    if "upper()" not in unparse(sj.node):
        res.fail_at("C16-S1", sj, "no-normalisation", "standardize_join_type no longer upper-cases the join type")
    # ---- Pandas
    sc = program.method("pandas_base", "PandasModelBase", "standardize_join_code_", inherited=False)
    res.analysed(sc)
    mp = {}
    for st in ast.walk(sc.node):
        if isinstance(st, ast.Assign) and isinstance(st.value, ast.Dict):
            mp = {k.value: v.value for k, v in zip(st.value.keys, st.value.values) if isinstance(k, ast.Constant) and isinstance(v, ast.Constant)}
    lower = "lower()" in unparse(sc.node)
    for jt in sorted(allowed):
        key = jt.lower() if lower else jt
        got = mp.get(key, key)
        want = EXPECTED_PANDAS.get(jt.lower(), ())
        if got in want and not (jt.lower() == "cross" and got == "inner" and not _cross_needs_empty_on(program)):
            res.ok("C16-S1", f"Pandas: {jt} -> how='{got}'")
        else:
            extra = " (an outer merge on the constant scratch key returns the non-empty side padded with nulls when the other side is empty)" if jt.lower() == "cross" else ""
            res.fail_at("C16-S1", sc, f"pandas:{jt}", f"Pandas maps join type {jt} to how='{got}', the join of that meaning is how={' / '.join(repr(w) for w in want)}{extra}")
    # ---- Polars
    pj = program.method("polars_model", "PolarsModel", "_natural_join_step", inherited=False)
    res.analysed(pj)
    txt = unparse(pj.node)
    if "how = op.jointype.lower()" in txt and "if how == 'full'" in txt and "how = 'outer'" in txt:
        res.ok("C16-S1", "Polars: how = jointype.lower(), FULL -> 'outer', RIGHT simulated by a swapped LEFT join")
    else:
        res.abstain("C16-S1", "Polars join-type mapping", "shape not recognised")
    # ---- SQL
    nj = program.method("sql_model", "SQLModel", "natural_join_to_near_sql", inherited=False)
    res.analysed(nj)
    joiner = None
    for c in ast.walk(nj.node):
        if isinstance(c, ast.Call) and dotted_name(c.func) == "data_algebra.near_sql.NearSQLBinaryStep":
            for kw in c.keywords:
                if kw.arg == "joiner":
                    joiner = kw.value
    if joiner is None or unparse(joiner) != "join_node.jointype + ' JOIN'":
        raise AnalysisError(f"natural_join_to_near_sql: joiner is `{unparse(joiner) if joiner is not None else None}`, expected join_node.jointype + ' JOIN'")
    sqlite_nj = program.method("SQLite", "SQLiteModel", "natural_join_to_near_sql", inherited=False)
    res.analysed(sqlite_nj)
    rewritten = {c.comparators[0].value for c in ast.walk(sqlite_nj.node) if isinstance(c, ast.Compare)
                 and unparse(c.left) == "join_node.jointype" and isinstance(c.comparators[0], ast.Constant)}
    for model, keywords, rew in (("PostgreSQLModel", facts.POSTGRESQL_JOIN_KEYWORDS, set()), ("SQLiteModel", facts.SQLITE_JOIN_KEYWORDS, rewritten)):
        for jt in sorted(allowed):
            if jt in rew:
                res.ok("C16-S1", f"{model}: {jt} join is rewritten by the dialect")
                continue
            kw = jt + " JOIN"
            if kw in keywords:
                res.ok("C16-S1", f"{model}: {jt} -> `{kw}`")
            else:
                res.fail_at("C16-S1", nj, f"sql:{model}:{jt}", f"{model}: join type {jt} is emitted as `{kw}`, which is not join syntax of that dialect")
    # RIGHT and FULL must be rewritten for SQLite (older SQLite has neither; the emulations are what the tests cover)
    for jt in ("RIGHT", "FULL"):
        if jt not in rewritten:
            res.fail_at("C16-S1", sqlite_nj, f"sqlite-no-rewrite:{jt}", f"SQLiteModel no longer rewrites {jt} joins")


def _pair_guard_sets(fnode):
    """locals used as the right side of a membership test on a column variable: `c not in X` / `c in X`"""
    used = set()
    for n in ast.walk(fnode):
        if isinstance(n, ast.Compare) and len(n.ops) == 1 and isinstance(n.ops[0], (ast.In, ast.NotIn)) and isinstance(n.left, ast.Name) \
                and isinstance(n.comparators[0], ast.Name):
            used.add(n.comparators[0].id)
        # ... or subtracted from the columns a loop walks: `for c in common - X`
        if isinstance(n, (ast.For, ast.comprehension)):
            for b in ast.walk(n.iter):
                if isinstance(b, ast.BinOp) and isinstance(b.op, ast.Sub) and isinstance(b.right, ast.Name):
                    used.add(b.right.id)
                if isinstance(b, ast.Call) and isinstance(b.func, ast.Attribute) and b.func.attr == "difference" and b.args and isinstance(b.args[0], ast.Name):
                    used.add(b.args[0].id)
    return [st for st in ast.walk(fnode) if isinstance(st, ast.Assign) and len(st.targets) == 1 and isinstance(st.targets[0], ast.Name)
            and st.targets[0].id in used and isinstance(st.value, (ast.SetComp, ast.ListComp, ast.GeneratorExp, ast.Call, ast.Set, ast.BinOp))
            and ("on_a" in unparse(st.value) or "on_b" in unparse(st.value))]


def twin_cleanup_rule(program, res, rule="C16-S3"):
    """Pandas natural join: which suffixed twins exist is decided on key *pairs*, and every twin is removed in every iteration"""
    pj = program.method("pandas_base", "PandasModelBase", "_natural_join_step", inherited=False)
    res.analysed(pj)
    guard_sets = _pair_guard_sets(pj.node)
    if not guard_sets:
        raise AnalysisError("Pandas _natural_join_step: twin clean-up guard set not found")
    gs = guard_sets[-1]
    v = gs.value
    pairwise = isinstance(v, (ast.SetComp, ast.ListComp, ast.GeneratorExp)) and "zip(op.on_a, op.on_b)" in unparse(v.generators[0].iter) \
        and any(isinstance(c, ast.Compare) and isinstance(c.ops[0], ast.Eq) for c in v.generators[0].ifs)
    if pairwise:
        res.ok(rule, "Pandas: a suffixed twin is kept out of the clean-up only for an equal-named key pair (zip(on_a, on_b))")
    else:
        res.fail_at(rule, pj, "twin-cleanup-not-pairwise",
                    f"`{unparse(gs)[:90]}` decides which shared columns pandas merged into one: pandas merges a key pair only when "
                    f"both names are equal *in the same pair*; a set-based test (on_a only, or on_a ∩ on_b) leaves "
                    f"`<col>_tmp_right_col` in the result for crossed or differently named keys", gs)
    # every iteration of the clean-up loop removes the twin, or skips a column that has none (an equal-named key pair)
    fn = inline_local_consts(pj.node)
    suffix = None
    for c in ast.walk(fn):
        if isinstance(c, ast.Call) and isinstance(c.func, ast.Attribute) and c.func.attr == "merge":
            for kw in c.keywords:
                if kw.arg == "suffixes" and isinstance(kw.value, ast.Tuple) and len(kw.value.elts) == 2 and isinstance(kw.value.elts[1], ast.Constant):
                    suffix = kw.value.elts[1].value
    if not suffix:
        raise AnalysisError("Pandas _natural_join_step: merge suffixes=('', <right suffix>) not found")
    g = cfgmod.build(fn)
    gname = gs.targets[0].id

    def removes(stmt, loopvar, aliases) -> bool:
        t = unparse(stmt)
        keys = [f"{loopvar} + '{suffix}'"] + list(aliases)
        return any((f".drop({k}" in t or f".drop([{k}]" in t or (t.startswith("del ") and t.endswith(f"[{k}]")) or f".drop(columns=[{k}]" in t
                    or f".drop(columns={k}" in t) for k in keys)

    loops = [n for n in g.stmt_nodes(("iter",)) if isinstance(n.stmt.target, ast.Name)]
    checked = 0
    for ln in loops:
        lv = ln.stmt.target.id
        aliases = {st.targets[0].id for st in ast.walk(ln.stmt) if isinstance(st, ast.Assign) and len(st.targets) == 1 and isinstance(st.targets[0], ast.Name)
                   and unparse(st.value) == f"{lv} + '{suffix}'"}
        body_nodes = [x for x in ast.walk(ln.stmt) if isinstance(x, ast.stmt) and x is not ln.stmt]
        if not any(removes(x, lv, aliases) for x in body_nodes if not isinstance(x, (ast.If, ast.For, ast.While))):
            continue
        checked += 1
        bad_path = None
        n_paths = 0
        for path in g.paths(start=ln.id, targets={ln.id}, limit=5000):
            if len(path) < 2 or path[0][1] is not True:
                continue
            n_paths += 1
            ok = False
            for (nid, label) in path[1:-1]:
                node = g.nodes[nid]
                if node.kind == "stmt" and removes(node.stmt, lv, aliases):
                    ok = True
                if node.kind == "test" and isinstance(node.cond, ast.Compare) and len(node.cond.ops) == 1 and isinstance(node.cond.left, ast.Name) \
                        and node.cond.left.id == lv and isinstance(node.cond.comparators[0], ast.Name) and node.cond.comparators[0].id == gname:
                    is_in = isinstance(node.cond.ops[0], ast.In)
                    if (is_in and label is True) or ((not is_in) and label is False):
                        ok = True  # this column is an equal-named key pair: pandas made no twin
            if not ok:
                bad_path = path
                break
        if bad_path is not None:
            conds = [f"{unparse(g.nodes[nid].cond)[:50]} is {label}" for (nid, label) in bad_path if g.nodes[nid].kind == "test"]
            res.fail_at(rule, pj, "twin-not-removed-on-some-path",
                        f"one iteration of the shared-column clean-up in {pj.qualname} can finish without removing `{lv} + {suffix!r}` "
                        f"(path: {'; '.join(conds) or 'straight'}): the suffixed twin stays in the result, a column the pipeline does not declare", ln.stmt)
        else:
            res.ok(rule, f"Pandas: every iteration of the clean-up loop ({n_paths} paths) removes `{lv} + {suffix!r}` or skips an equal-named key pair")
    if checked == 0:
        suffix_vars = {st.targets[0].id for st in ast.walk(fn) if isinstance(st, ast.Assign) and len(st.targets) == 1 and isinstance(st.targets[0], ast.Name)
                       and f"'{suffix}'" in unparse(st.value) and "merge(" not in unparse(st.value)}
        others = [st for st in ast.walk(fn) if isinstance(st, ast.stmt) and not isinstance(st, (ast.FunctionDef, ast.For, ast.If, ast.While))
                  and (f"'{suffix}'" in unparse(st) or any(isinstance(x, ast.Name) and x.id in suffix_vars for x in ast.walk(st)))
                  and ("drop" in unparse(st) or "del " in unparse(st))
                  and "merge(" not in unparse(st)]
        if others:
            res.abstain(rule, f"Pandas: the `<col>{suffix}` twins are removed outside a per-column loop (`{unparse(others[0])[:70]}`)",
                        "removal form not decided by the per-iteration path rule")
            return
        res.fail_at(rule, pj, "twin-never-removed", f"no loop of {pj.qualname} removes the `<col>{suffix}` twins that pandas.merge creates for shared columns")


def _s3(program, res):
    nj = program.method("sql_model", "SQLModel", "natural_join_to_near_sql", inherited=False)
    g = cfgmod.build(nj.node)
    calls = []
    for n in g.stmt_nodes(("stmt",)):
        for c in ast.walk(n.stmt):
            if isinstance(c, ast.Call) and isinstance(c.func, ast.Attribute) and c.func.attr == "_coalesce_terms":
                guards = [(unparse(b.cond), lab) for b, lab in g.lexical_guards(n)]
                calls.append((c, guards))
    if len(calls) != 2:
        raise AnalysisError("natural_join_to_near_sql: expected two _coalesce_terms calls (left_is_first / not)")
    # roles, read from the code: the sub-queries come out of _natural_join_sub_queries as (using_left, sql_left, using_right, sql_right);
    # the alias of each is the public_name_quoted it is bound with in the NearSQLBinaryStep
    sub = pat.first("(_UL, _SL, _UR, _SR) = self._natural_join_sub_queries()", nj.node) or pat.first("_UL, _SL, _UR, _SR = self._natural_join_sub_queries()", nj.node)
    if sub is None:
        raise AnalysisError("natural_join_to_near_sql: `using_left, sql_left, using_right, sql_right = self._natural_join_sub_queries(...)` not found")
    sql_left, sql_right = sub[1]["_SL"], sub[1]["_SR"]
    binary = [c for c in ast.walk(nj.node) if isinstance(c, ast.Call) and dotted_name(c.func) == "data_algebra.near_sql.NearSQLBinaryStep"]
    if not binary:
        raise AnalysisError("natural_join_to_near_sql: NearSQLBinaryStep construction not found")
    kwsb = {kw.arg: kw.value for kw in binary[0].keywords}

    def bound(sub_kw):
        c = kwsb.get(sub_kw)
        if isinstance(c, ast.Call) and isinstance(c.func, ast.Attribute) and c.func.attr == "to_bound_near_sql" and isinstance(c.func.value, ast.Name):
            k = {kw.arg: kw.value for kw in c.keywords}
            a = k.get("public_name_quoted")
            return c.func.value.id, (a.id if isinstance(a, ast.Name) else None)
        return None, None
    (q1, a1), (q2, a2) = bound("sub_sql1"), bound("sub_sql2")
    if q1 == sql_left and q2 == sql_right and a1 and a2 and a1 != a2:
        res.ok("C16-S3", f"SQL: the left sub-query is aliased {a1}, the right sub-query {a2}")
        left_alias, right_alias = a1, a2
    else:
        res.fail_at("C16-S3", nj, "alias-binding", f"the join's sub-queries are bound ({q1}→{a1}, {q2}→{a2}); expected ({sql_left}, {sql_right}) each with its own alias", binary[0])
        left_alias, right_alias = a1 or "left_qqn", a2 or "right_qqn"
    for (c, guards) in calls:
        kws = {kw.arg: unparse(kw.value) for kw in c.keywords}
        lif = [lab for (t, lab) in guards if t == "left_is_first"]
        if not lif:
            raise AnalysisError("natural_join_to_near_sql: _coalesce_terms call not under `if left_is_first`")
        want_first = left_alias if lif[0] else right_alias
        if kws.get("sub_view_name_first") == want_first and kws.get("sub_view_name_second") != want_first:
            res.ok("C16-S3", f"SQL: left_is_first={lif[0]} -> first coalesce operand {want_first}")
        else:
            res.fail_at("C16-S3", nj, f"coalesce-direction:left_is_first={lif[0]}",
                        f"with left_is_first={lif[0]} the coalesce prefers {kws.get('sub_view_name_first')}: a shared non-key column "
                        f"would take the right value even where the left is not null", c)
    # ON clause pairs on_a with the left alias and on_b with the right alias
    on_ok = False
    for c in ast.walk(nj.node):
        if isinstance(c, ast.ListComp) and isinstance(c.generators[0].target, ast.Tuple) and len(c.generators[0].target.elts) == 2 \
                and unparse(c.generators[0].iter).replace(" ", "") == "zip(join_node.on_a,join_node.on_b)":
            va, vb = [t.id for t in c.generators[0].target.elts if isinstance(t, ast.Name)]
            e = unparse(c.elt)
            try:
                if e.index(left_alias) < e.index(f"quote_identifier({va})") < e.index(right_alias) < e.index(f"quote_identifier({vb})"):
                    on_ok = True
            except ValueError:
                pass
    if on_ok:
        res.ok("C16-S3", "SQL: ON pairs left.on_a[i] = right.on_b[i]")
    else:
        res.fail_at("C16-S3", nj, "on-clause-pairing", "the ON clause no longer pairs left_alias.on_a[i] with right_alias.on_b[i]")
    # _coalesce_terms keeps the order first, second
    ct = program.method("sql_model", "SQLModel", "_coalesce_terms", inherited=False)
    lists = [l for l in ast.walk(ct.node) if isinstance(l, ast.List) and len(l.elts) == 2]
    good = [l for l in lists if "sub_view_name_first" in unparse(l.elts[0]) and "sub_view_name_second" in unparse(l.elts[1])]
    if good:
        res.ok("C16-S3", "_coalesce_terms passes (first, second) in that order")
    else:
        res.fail_at("C16-S3", ct, "coalesce-argument-order", "_coalesce_terms no longer passes the first view before the second")
    # COALESCE template keeps argument order
    for (mod, cname) in (("SQLite", "SQLiteModel"), ("PostgreSQL", "PostgreSQLModel")):
        d = sqlexpr.Dialect(program, mod, cname)
        kind, info = d.resolve("coalesce")
        if kind == "formatter":
            fn = d.formatter_func(info)
            txt = unparse(fn)
            if "COALESCE" in txt and "reversed" not in txt and "[::-1]" not in txt:
                res.ok("C16-S3", f"{cname}: coalesce formatter emits COALESCE over the arguments in order")
            else:
                res.fail("C16-S3", f"{info[0].name}:{getattr(fn, 'name', 'lambda')}", f"coalesce-template:{cname}",
                         "the coalesce formatter does not emit COALESCE(args in order)", info[0].relpath, getattr(fn, "lineno", 0))
    # ---- Pandas
    pj = program.method("pandas_base", "PandasModelBase", "_natural_join_step", inherited=False)
    res.analysed(pj)
    ok = False
    suffix = None
    pj_node = inline_local_consts(pj.node)
    for c in ast.walk(pj_node):
        if isinstance(c, ast.Call) and isinstance(c.func, ast.Attribute) and c.func.attr == "merge":
            for kw in c.keywords:
                if kw.arg == "suffixes" and isinstance(kw.value, ast.Tuple) and isinstance(kw.value.elts[1], ast.Constant):
                    if isinstance(kw.value.elts[0], ast.Constant) and kw.value.elts[0].value == "":
                        suffix = kw.value.elts[1].value
            kws = {kw.arg: unparse(kw.value) for kw in c.keywords}
            # the two inputs, by role: the frames evaluated from op.sources[0] and op.sources[1]
            lv = [e["_L"] for (_n, e) in pat.find("_L = self._eval_value_source(op.sources[0], data_map=data_map)", pj_node)]
            rv = [e["_R"] for (_n, e) in pat.find("_R = self._eval_value_source(op.sources[1], data_map=data_map)", pj_node)]
            if not lv or not rv:
                raise AnalysisError("Pandas _natural_join_step: the two evaluated inputs were not found")
            if kws.get("left") != lv[0] or kws.get("right") != rv[0]:
                res.fail_at("C16-S3", pj, "pandas-merge-sides", f"pd.merge(left={kws.get('left')}, right={kws.get('right')})", c)
    if suffix is None:
        raise AnalysisError("Pandas _natural_join_step: merge suffixes=('', <right suffix>) not found")
    fills = pat.find("_F.loc[_M, _C] = _F.loc[_M, _C + __S]", pj_node)
    fills = [(n, e) for (n, e) in fills if e["__S"] == repr(suffix)]
    # the twin's name may also come out of a mapping built with the suffix:  for c, c_right in {c: c + SUFFIX …}.items()
    twin_maps = {st.targets[0].id for st in ast.walk(pj_node) if isinstance(st, ast.Assign) and len(st.targets) == 1 and isinstance(st.targets[0], ast.Name)
                 and isinstance(st.value, (ast.DictComp, ast.Dict)) and repr(suffix) in unparse(st.value)}
    for loop in [l for l in ast.walk(pj_node) if isinstance(l, ast.For) and isinstance(l.target, ast.Tuple) and len(l.target.elts) == 2
                 and isinstance(l.iter, ast.Call) and isinstance(l.iter.func, ast.Attribute) and l.iter.func.attr == "items"
                 and isinstance(l.iter.func.value, ast.Name) and l.iter.func.value.id in twin_maps]:
        cv, tv = [t.id for t in loop.target.elts if isinstance(t, ast.Name)]
        for (n, e) in pat.find("_F.loc[_M, _C] = _F.loc[_M, _T]", loop):
            if e["_C"] == cv and e["_T"] == tv:
                fills.append((n, e))
    good_fill = None
    for (n, e) in fills:
        # the mask marks the nulls of the *left* column: _M = _F[_C].isnull()
        masks = [m for (m, e2) in pat.find("_M = _F[_C].isnull()", pj_node) if e2 == {k: e[k] for k in ("_M", "_F", "_C")}]
        if masks:
            good_fill = (n, e)
    if good_fill is not None:
        res.ok("C16-S3", "Pandas: nulls of the left column are filled from the suffixed right twin")
    else:
        res.fail_at("C16-S3", pj, "pandas-coalesce-direction", "the shared-column fix-up no longer fills nulls of the left column from the right twin")
    twin_cleanup_rule(program, res)
    polars_coalesce_rule(program, res)
    coalesce_exemption_rule(program, res)
    polars_orphan_key_rule(program, res)


def polars_coalesce_rule(program, res, rule="C16-S3"):
    """Polars: every coalesce of a shared column (or of a key that shares its name with a column of the other table) prefers the *original left*
    input.  In the direct branch the plain column is the left table's; in the right-join branch (simulated by a swapped left join) the left
    table's value arrives under a suffix or as the carried key copy, and it is that carrier which has to win."""
    plj = program.method("polars_model", "PolarsModel", "_natural_join_step", inherited=False)
    swap_if = None
    for st in ast.walk(plj.node):
        if isinstance(st, ast.If) and "right" in unparse(st.test) and any(isinstance(c, ast.Call) and isinstance(c.func, ast.Attribute) and c.func.attr == "join" for c in ast.walk(st)):
            swap_if = st
            break
    if swap_if is None:
        raise AnalysisError("Polars _natural_join_step: the branch that separates the direct join from the swapped (right) join was not found")
    direct_is_body = "!=" in unparse(swap_if.test)
    direct_nodes = {id(x) for b in (swap_if.body if direct_is_body else swap_if.orelse) for x in ast.walk(b)}
    whens = [c for c in ast.walk(plj.node) if isinstance(c, ast.Call) and isinstance(c.func, ast.Attribute) and c.func.attr == "alias" and "pl.when" in unparse(c)]
    if len(whens) < 2:
        raise AnalysisError("Polars _natural_join_step: expected at least two coalescing when/then/otherwise expressions")
    n_direct = n_swapped = 0
    for w in whens:
        m_direct = pat.match("pl.when(pl.col(__C).is_null()).then(pl.col(__T)).otherwise(pl.col(__C)).alias(__C)", w)
        m_swapped = pat.match("pl.when(pl.col(__T).is_null()).then(pl.col(__C)).otherwise(pl.col(__T)).alias(__C)", w)
        in_direct = id(w) in direct_nodes
        # which of the two column expressions is the carrier (suffixed twin / carried key copy)?  the one that is not the alias target
        if in_direct:
            n_direct += 1
            if m_direct is not None and m_direct["__T"] != m_direct["__C"]:
                res.ok(rule, f"Polars: `{m_direct['__C']}` keeps the left value, else takes `{m_direct['__T']}`")
            else:
                res.fail_at(rule, plj, "polars-coalesce-direction", f"`{unparse(w)[:100]}` does not prefer the left value", w)
        else:
            n_swapped += 1
            if m_swapped is not None and m_swapped["__T"] != m_swapped["__C"]:
                res.ok(rule, f"Polars (right join simulated by swapped left join): `{m_swapped['__T']}` (the original left value) wins over `{m_swapped['__C']}`")
            else:
                res.fail_at(rule, plj, "polars-coalesce-direction-right", f"`{unparse(w)[:110]}` does not prefer the original left value", w)
    if n_direct < 1 or n_swapped < 1:
        raise AnalysisError("Polars _natural_join_step: a coalesce was expected in both the direct and the swapped branch")


def coalesce_exemption_rule(program, res, rule="C16-S3"):
    """which shared columns are *not* coalesced: only a key that carries the same name on both sides (one merged column).  A key named
    differently on the other side does not exempt a shared non-key column that happens to have its name."""
    def _pairwise(e) -> bool:
        for c in ast.walk(e):
            if isinstance(c, (ast.ListComp, ast.SetComp, ast.GeneratorExp)):
                g_ = c.generators[0]
                if isinstance(g_.iter, ast.Call) and dotted_name(g_.iter.func) == "zip" and isinstance(g_.target, ast.Tuple) and len(g_.target.elts) == 2:
                    pair = {t.id for t in g_.target.elts if isinstance(t, ast.Name)}
                    if any(isinstance(i, ast.Compare) and isinstance(i.ops[0], ast.Eq) and {x.id for x in [i.left, i.comparators[0]] if isinstance(x, ast.Name)} == pair for i in g_.ifs):
                        return True
        return False

    pj = program.method("pandas_base", "PandasModelBase", "_natural_join_step", inherited=False)
    pd_sets = [st for st in ast.walk(pj.node) if isinstance(st, ast.Assign) and _pairwise(st.value)]
    if pd_sets:
        res.ok(rule, "Pandas exempts only equal-named key pairs from the coalesce")
    else:
        res.fail_at(rule, pj, "pandas-coalesce-exemption", "Pandas _natural_join_step no longer derives the exempt columns from the equal-named key pairs")
    plj = program.method("polars_model", "PolarsModel", "_natural_join_step", inherited=False)
    res.analysed(plj)
    cands = [st for st in ast.walk(plj.node) if isinstance(st, ast.Assign) and isinstance(st.targets[0], ast.Name) and isinstance(st.value, ast.BinOp)
             and isinstance(st.value.op, ast.Sub) and "intersection" in unparse(st.value.left)]
    if len(cands) < 2:
        raise AnalysisError("Polars _natural_join_step: the two `shared columns minus keys` computations were not found")
    for st in cands:
        if _pairwise(st.value.right):
            res.ok(rule, f"Polars: `{st.targets[0].id}` exempts only equal-named key pairs")
        else:
            res.fail_at(rule, plj, f"polars-coalesce-exempts-one-sided-keys:{unparse(st.value.right)[:30]}",
                        f"`{unparse(st)[:120]}` exempts every column that is a key on one side: a.natural_join(b, on=[('k','j')], jointype='right') where a also has a "
                        f"column j returns b's j (Polars 2,3 — Pandas and SQL 20,30: the left value)", st)


def polars_orphan_key_rule(program, res, rule="C16-S3"):
    """a key that exists only in the table on the null-able side of the join (differently named keys) has to come out of the join as that
    table's own column: carried through under a temporary name and renamed back.  Re-creating it afterwards as an alias of the surviving key is
    right for matched rows only — an unmatched row gets the other table's key value where SQL gives NULL."""
    plj = program.method("polars_model", "PolarsModel", "_natural_join_step", inherited=False)
    res.analysed(plj)
    joins = [c for c in ast.walk(plj.node) if isinstance(c, ast.Call) and isinstance(c.func, ast.Attribute) and c.func.attr == "join"
             and any(kw.arg in ("left_on", "right_on") for kw in c.keywords)]
    if len(joins) < 2:
        raise AnalysisError("Polars _natural_join_step: the two join calls (direct and swapped) were not found")
    # the carried copies: `pl.col(c).alias(f"{c}<suffix>") for c in <orphan list>` before the join
    suffixes, orphan_lists = set(), set()
    for comp in ast.walk(plj.node):
        if isinstance(comp, (ast.ListComp, ast.GeneratorExp)) and isinstance(comp.elt, ast.Call) and isinstance(comp.elt.func, ast.Attribute) \
                and comp.elt.func.attr == "alias" and comp.elt.args and isinstance(comp.elt.args[0], ast.JoinedStr) and isinstance(comp.generators[0].iter, ast.Name):
            consts = [v.value for v in comp.elt.args[0].values if isinstance(v, ast.Constant)]
            if consts:
                suffixes.update(consts)
                orphan_lists.add(comp.generators[0].iter.id)

    def _mentions_carried(e):
        return any(isinstance(x, ast.JoinedStr) and any(isinstance(v, ast.Constant) and v.value in suffixes for v in x.values) for x in ast.walk(e))

    # after the join every producer of an orphan key's column must read the carried copy: `.alias(<orphan name>)` on an expression over the
    # carried copy, or a rename `{carried: name}`.  A producer that reads only another column re-creates the key from the surviving partner.
    bad, good = [], 0
    scopes = []
    for n in ast.walk(plj.node):
        if isinstance(n, ast.For) and isinstance(n.target, ast.Name) and any(isinstance(x, ast.Name) and x.id in orphan_lists | {"orphan_keys"} for x in ast.walk(n.iter)):
            scopes.append(({n.target.id}, n.body))
        elif isinstance(n, (ast.ListComp, ast.GeneratorExp, ast.DictComp)) and any(isinstance(x, ast.Name) and x.id in orphan_lists | {"orphan_keys"} for x in ast.walk(n.generators[0].iter)):
            if isinstance(n, ast.DictComp):
                body = [ast.Expr(n.key), ast.Expr(n.value)]
                if _mentions_carried(n.key):
                    good += 1
                continue
            scopes.append(({t.id for t in ast.walk(n.generators[0].target) if isinstance(t, ast.Name)}, [ast.Expr(n.elt)]))
    for names, body in scopes:
        for st in body:
            for c in ast.walk(st):
                if isinstance(c, ast.Call) and isinstance(c.func, ast.Attribute) and c.func.attr == "alias" and c.args and isinstance(c.args[0], ast.Name) and c.args[0].id in names:
                    if _mentions_carried(c.func.value):
                        good += 1
                    else:
                        bad.append(c)
                elif isinstance(c, ast.Call) and isinstance(c.func, ast.Attribute) and c.func.attr == "rename" and c.args and isinstance(c.args[0], ast.Dict):
                    for k, v_ in zip(c.args[0].keys, c.args[0].values):
                        if isinstance(v_, ast.Name) and v_.id in names:
                            if k is not None and _mentions_carried(k):
                                good += 1
                            else:
                                bad.append(c)
    if bad:
        res.fail_at(rule, plj, "polars-orphan-key-aliased-from-other-side",
                    f"`{unparse(bad[0])[:120]}` re-creates a differently named key after the join from a column other than its carried copy: for an unmatched row of a left / right join "
                    f"the column then holds the other table's key value (a.natural_join(b, on=[('k','j')], jointype='left'): j = k for rows without partner) where SQL returns NULL", bad[0])
    elif suffixes and good >= 2:
        res.ok(rule, f"Polars: a key that exists on one side only is carried through the join under a temporary name and every producer of its column reads that copy ({good} producers)")
    else:
        raise AnalysisError("Polars _natural_join_step: neither the carried temporary key nor an aliasing of keys after the join was recognised")


def polars_join_guard_rule(program, res, rule="C16-S3"):
    """Polars: the coalescing statements are not guarded by the join type"""
    plj = program.method("polars_model", "PolarsModel", "_natural_join_step", inherited=False)
    g2 = cfgmod.build(plj.node)
    n_c = 0
    for n in g2.stmt_nodes(("stmt",)):
        if "pl.when" in unparse(n.stmt) and "is_null" in unparse(n.stmt):
            n_c += 1
            conds = [unparse(b.cond) for b, _l in g2.lexical_guards(n)]
            hv = [e["_H"] for (_n, e) in pat.find("_H = op.jointype.lower()", plj.node)] or ["how"]
            side_tests = {f"{hv[0]}!='right'", f"{hv[0]}=='right'"}
            extra = [c for c in conds if (hv[0] in c or "jointype" in c) and c.replace(" ", "") not in side_tests]
            if extra:
                res.fail_at(rule, plj, f"polars-coalesce-conditional:{extra[0][:40]}",
                            f"the Polars coalesce of shared columns runs only under `{extra[0]}`: for the excluded join types a shared "
                            f"non-key column keeps the left null where Pandas and SQL return the right value", n.stmt)
            else:
                res.ok(rule, f"Polars: coalesce of shared columns guarded only by {conds}")
    if n_c < 2:
        raise AnalysisError("Polars _natural_join_step: coalescing statements not found")


def _s3c(program, res):
    """the coalesce of shared columns does not depend on the join type, and nothing overwrites a coalesced SQL term"""
    # SQL: stores into `terms` after _coalesce_terms may only be pass-through (None)
    nj = program.method("sql_model", "SQLModel", "natural_join_to_near_sql", inherited=False)
    g = cfgmod.build(nj.node)
    d = depsmod.Deps(g, nj.params())
    n_st = 0
    for n in g.stmt_nodes(("stmt",)):
        st = n.stmt
        if isinstance(st, ast.Assign) and isinstance(st.targets[0], ast.Subscript) and unparse(st.targets[0].value) == "terms":
            n_st += 1
            key = st.targets[0].slice
            # the aliases of the two sides: the names handed to _coalesce_terms as sub_view_name_first / _second
            side_names = {kw.value.id for c_ in ast.walk(nj.node) if isinstance(c_, ast.Call) and isinstance(c_.func, ast.Attribute) and c_.func.attr == "_coalesce_terms"
                          for kw in c_.keywords if kw.arg in ("sub_view_name_first", "sub_view_name_second") and isinstance(kw.value, ast.Name)}
            # a pass-through of the column itself: None (emitted by name) or the column's own name qualified by one side's alias
            own_name = isinstance(key, ast.Name) and isinstance(st.value, ast.BinOp) and not any(isinstance(x, ast.Constant) and isinstance(x.value, str) and "(" in x.value for x in ast.walk(st.value)) \
                and any(isinstance(x, ast.Name) and x.id in side_names for x in ast.walk(st.value)) \
                and {x.id for x in ast.walk(st.value) if isinstance(x, ast.Name)} <= {key.id, "self"} | side_names
            if (isinstance(st.value, ast.Constant) and st.value.value is None) or own_name:
                # a conjunct of the enclosing conditions (not an alternative inside an `or`) restricts the column to those outside `common`
                conj_ = []
                for b, _l in g.lexical_guards(n):
                    if b.cond is not None and isinstance(b.stmt, ast.If) and _l is True:
                        conj_.extend(b.cond.values if isinstance(b.cond, ast.BoolOp) and isinstance(b.cond.op, ast.And) else [b.cond])
                if any(isinstance(e, ast.Compare) and len(e.ops) == 1 and isinstance(e.ops[0], ast.NotIn) and unparse(e.comparators[0]) == "common" for e in conj_):
                    res.ok("C16-S3", "SQL: pass-through term (None) only for columns that are not shared")
                else:
                    res.fail_at("C16-S3", nj, "passthrough-for-shared-column", f"`{unparse(st)}` is not restricted to columns outside `common`", st)
            else:
                res.fail_at("C16-S3", nj, f"coalesced-term-overwritten:{unparse(st.value)[:40]}",
                            f"`{unparse(st)[:90]}` replaces a select term of the join after the COALESCE terms were built: a shared "
                            f"column (e.g. a same-named key under a native RIGHT/FULL join) would take one side's value only", st)
    # the coalesce site depends on no join type
    for n in g.stmt_nodes(("stmt",)):
        if any(isinstance(c, ast.Call) and isinstance(c.func, ast.Attribute) and c.func.attr == "_coalesce_terms" for c in ast.walk(n.stmt)):
            roots = d.own_guard_roots(n) | d.roots_at(n, n.stmt.value)
            bad = [r for r in roots if r.endswith(".jointype") or r == "join_node.jointype"]
            if bad:
                res.fail_at("C16-S3", nj, "coalesce-depends-on-jointype", f"the COALESCE terms depend on {bad}", n.stmt)
    polars_join_guard_rule(program, res)
    pj = program.method("pandas_base", "PandasModelBase", "_natural_join_step", inherited=False)
    g3 = cfgmod.build(pj.node)
    for n in g3.stmt_nodes(("stmt",)):
        if isinstance(n.stmt, ast.Assign) and unparse(n.stmt.targets[0]).startswith("res.loc[is_null"):
            conds = [unparse(b.cond) for b, _l in g3.lexical_guards(n)]
            extra = [c for c in conds if "jointype" in c or "how" in c]
            if extra:
                res.fail_at("C16-S3", pj, "pandas-coalesce-conditional", f"the Pandas fix-up of shared columns runs only under `{extra[0]}`", n.stmt)
            else:
                res.ok("C16-S3", "Pandas: shared-column fix-up does not depend on the join type")


def polars_full_join_keys_rule(program, res, rule="C16-S4"):
    """a Polars full join keeps the two key columns apart (the right one under the suffix) unless coalesce=True: right-only rows then have a
    null in the left key.  The step has to ask for coalesce=True or put the equal-named keys into its own coalescing list for a full join."""
    plj = program.method("polars_model", "PolarsModel", "_natural_join_step", inherited=False)
    g = cfgmod.build(plj.node)
    general = []
    for c in ast.walk(plj.node):
        if isinstance(c, ast.Call) and isinstance(c.func, ast.Attribute) and c.func.attr == "join":
            how = next((kw.value for kw in c.keywords if kw.arg == "how"), None)
            if how is not None and not (isinstance(how, ast.Constant) and how.value in ("left", "inner", "right", "semi", "anti", "cross")):
                general.append(c)
    if not general:
        raise AnalysisError("Polars _natural_join_step: the join whose type is not a literal (the possible full join) was not found")
    for c in general:
        if any(kw.arg == "coalesce" and isinstance(kw.value, ast.Constant) and kw.value.value is True for kw in c.keywords):
            # coalesce=True folds the right key of *every* pair into the left key's column and drops the right key: that is the SQL result only
            # when the two keys of a pair have the same name (one column for both).  With left_on / right_on that may differ, a right-only row
            # of a full join gets the right key's value in the left key's column where SQL has NULL
            kws_ = {kw.arg: unparse(kw.value) for kw in c.keywords}
            same = ("on" in kws_) or (kws_.get("left_on") is not None and kws_.get("left_on") == kws_.get("right_on"))
            if same:
                res.ok(rule, "Polars: the possibly-full join asks for coalesce=True over equal-named keys")
            else:
                res.fail_at(rule, plj, "polars-full-join-coalesce-folds-differently-named-keys",
                            f"`join(left_on={kws_.get('left_on')}, right_on={kws_.get('right_on')}, how=…, coalesce=True)`: for a full join Polars then writes the right key into the "
                            f"left key's column for rows that exist only in the right table — a.natural_join(b, on=[('x','y')], jointype='full') returns x=4 for the right-only row "
                            f"y=4 where Pandas and SQL return x NULL", c)
            continue
        # the exemption set used before this join: does it let equal-named keys through when the join is a full join?
        node = g.containing_node(c)
        ex = [st for st in ast.walk(plj.node) if isinstance(st, ast.Assign) and isinstance(st.targets[0], ast.Name) and isinstance(st.value, ast.BinOp)
              and isinstance(st.value.op, ast.Sub) and "intersection" in unparse(st.value.left) and g.has_node(st)
              and (g.dominates(g.node_of(st).id, node.id))]
        how_name = unparse(next(kw.value for kw in c.keywords if kw.arg == "how"))
        keyed_by_how = any(how_name in unparse(st.value) or any(how_name in unparse(b.cond) and ("outer" in unparse(b.cond) or "full" in unparse(b.cond))
                                                                    for b, _l in g.lexical_guards(g.node_of(st))) for st in ex)
        if not keyed_by_how:
            # ... or a later statement, under a test of the join type, puts the equal-named keys back into the list that is coalesced
            names = {st.targets[0].id for st in ex}
            for st in ast.walk(plj.node):
                if isinstance(st, ast.Assign) and isinstance(st.targets[0], ast.Name) and st.targets[0].id in names and g.has_node(st) and st not in ex:
                    guards = [unparse(b.cond) for b, lab in g.lexical_guards(g.node_of(st)) if lab is True]
                    if any(how_name in c_ and ("outer" in c_ or "full" in c_) for c_ in guards) and "zip(" in unparse(st.value) and "==" in unparse(st.value):
                        keyed_by_how = True
        if keyed_by_how:
            res.ok(rule, "Polars: for a full join the equal-named keys are coalesced by the step itself")
        else:
            res.fail_at(rule, plj, "polars-full-join-keys-not-coalesced",
                        "Polars join(how='outer'/'full') keeps both key columns unless coalesce=True, and the coalescing step exempts the keys whatever the join type: "
                        "for right-only rows of a full join the key column is null", c)


def _s4(program, res):
    pj = program.method("pandas_base", "PandasModelBase", "_natural_join_step", inherited=False)
    res.analysed(pj)
    g = cfgmod.build(pj.node)
    merges = [c for c in ast.walk(pj.node) if isinstance(c, ast.Call) and isinstance(c.func, ast.Attribute) and c.func.attr == "merge"]
    if not merges:
        raise AnalysisError("Pandas _natural_join_step: the merge call was not found")
    mc = merges[0]
    mnode = g.containing_node(mc)
    kws = {kw.arg: kw.value for kw in mc.keywords}
    sides = {"left": kws.get("left"), "right": kws.get("right")}
    keys = {"left": unparse(kws.get("left_on")) if kws.get("left_on") is not None else "", "right": unparse(kws.get("right_on")) if kws.get("right_on") is not None else ""}
    problems = []
    set_aside = {}
    for side, arg in sides.items():
        if not isinstance(arg, ast.Name):
            raise AnalysisError("Pandas _natural_join_step: merge(left=…, right=…) are not plain names")
        # mask = <frame>[<keys>].isnull()...   ;   aside = <frame>.loc[mask, :]   ;   <frame> = <frame>.loc[~mask, :]
        masks = {st.targets[0].id for st in ast.walk(pj.node) if isinstance(st, ast.Assign) and isinstance(st.targets[0], ast.Name)
                 and any(isinstance(c, ast.Call) and isinstance(c.func, ast.Attribute) and c.func.attr in ("isnull", "isna") for c in ast.walk(st.value))
                 and arg.id in {x.id for x in ast.walk(st.value) if isinstance(x, ast.Name)} and keys[side] in unparse(st.value)}
        filtered = [st for st in ast.walk(pj.node) if isinstance(st, ast.Assign) and unparse(st.targets[0]) == arg.id and g.has_node(st)
                    and any(isinstance(u, ast.UnaryOp) and isinstance(u.op, ast.Invert) and isinstance(u.operand, ast.Name) and u.operand.id in masks for u in ast.walk(st.value))
                    and (g.dominates(g.node_of(st).id, mnode.id) or mnode.id in g.reachable_from(g.node_of(st).id))]
        dropped = [st for st in ast.walk(pj.node) if isinstance(st, ast.Assign) and unparse(st.targets[0]) == arg.id
                   and any(isinstance(c, ast.Call) and isinstance(c.func, ast.Attribute) and c.func.attr == "dropna" for c in ast.walk(st.value))]
        if not (filtered or dropped):
            problems.append(side)
            continue
        aside = [st.targets[0].id for st in ast.walk(pj.node) if isinstance(st, ast.Assign) and isinstance(st.targets[0], ast.Name) and st.targets[0].id != arg.id
                 and any(isinstance(sub, ast.Subscript) and any(isinstance(x, ast.Name) and x.id in masks for x in ast.walk(sub.slice)) for sub in ast.walk(st.value))
                 and not any(isinstance(u, ast.UnaryOp) and isinstance(u.op, ast.Invert) for u in ast.walk(st.value))]
        set_aside[side] = aside
    if problems:
        res.fail_at("C16-S4", pj, "pandas-merge-matches-null-keys",
                    f"pandas.merge matches rows whose keys are both null; SQL joins never match null keys (no null-key rows are taken out of the {' / '.join(problems)} frame before the merge)", mc)
    else:
        res.ok("C16-S4", "Pandas: rows with a null key are taken out of both frames before pd.merge")
        # ... and come back unmatched for the join types that keep them
        want = {"left": {"left", "outer"}, "right": {"right", "outer"}}
        for side, names in set_aside.items():
            back = False
            for n in g.stmt_nodes(("stmt",)):
                if any(nm in {x.id for x in ast.walk(n.stmt) if isinstance(x, ast.Name)} for nm in names) and mnode.id in g.dominators().get(n.id, set()) | {mnode.id} \
                        and n.id in g.reachable_from(mnode.id):
                    conds = " ".join(unparse(b.cond) for b, lab in g.lexical_guards(n) if lab is True)
                    if all(repr(w) in conds.replace('"', "'") for w in want[side]):
                        back = True
            if back:
                res.ok("C16-S4", f"Pandas: the {side} rows with a null key are re-attached unmatched for {sorted(want[side])} joins")
            else:
                res.fail_at("C16-S4", pj, f"pandas-null-key-rows-lost:{side}",
                            f"the {side} rows with a null key are taken out before the merge but not re-attached for {sorted(want[side])} joins: a {side} / full join loses them", mc)
    polars_full_join_keys_rule(program, res)
    fj = program.method("SQLite", "SQLiteModel", "_emit_full_join_as_complex", inherited=False)
    t = unparse(fj.node)
    groups_keys = any(isinstance(c, ast.Call) and isinstance(c.func, ast.Attribute) and c.func.attr == "project" and any(kw.arg == "group_by" for kw in c.keywords)
                      for c in ast.walk(fj.node))
    if not groups_keys and "UNION" not in t.upper() and "anti" not in t.lower() and "concat_rows" not in t:
        raise AnalysisError("SQLite _emit_full_join_as_complex: neither the key-grouping emulation nor a recognisable replacement (union / anti-join) found")
    if groups_keys:
        res.fail_at("C16-S4", fj, "sqlite-full-join-null-keys",
                    "the SQLite FULL join emulation builds the key set with GROUP BY and re-attaches both sides with LEFT joins on the keys: "
                    "rows whose key is null collapse into one all-null row (null keys never match) instead of being kept")
    else:
        res.ok("C16-S4", "SQLite full-join emulation does not group the keys")
    # the emulation must take every key pairing the builder accepts: natural_join(on=[('k', 'j')], jointype='full') is legal
    refusals = [a for a in ast.walk(fj.node) if isinstance(a, ast.Assert) and "on_a" in unparse(a.test) and "on_b" in unparse(a.test)]
    if refusals:
        res.fail_at("C16-S4", fj, "sqlite-full-join-differently-named-keys",
                    f"`{unparse(refusals[0])[:70]}`: the SQLite FULL join emulation refuses differently named keys — a.natural_join(b, on=[('k','j')], jointype='full') "
                    f"raises AssertionError in to_sql, Pandas and Polars evaluate it", refusals[0])
    else:
        res.ok("C16-S4", "SQLite full-join emulation accepts differently named key pairs")
    res.assumptions.append("pandas.merge matches null keys; polars full join does not coalesce keys unless coalesce=True; SQL joins never match NULL keys")


# SQL functions that take a number and cast anything else to DOUBLE (ANSI mode: a text that is not a number is an error; otherwise NULL / the text
# 'NaN' becomes the number NaN)
NUMERIC_ONLY_SQL_FUNCTIONS = {"isnan"}


def pandas_fill_untyped_rule(program, res, rule="C16-S5"):
    """Pandas fills a shared column cell by cell (`res.loc[mask, c] = …`).  A left column without a single value has no type of its own (float64 NaN,
    which the type guess rightly ignores): writing text cells into it raises.  The case `mask.all()` has to take the right column whole"""
    pj = program.method("pandas_base", "PandasModelBase", "_natural_join_step", inherited=False)
    g = cfgmod.build(pj.node)
    def _masked_loc(e):
        # <frame>.loc[<mask>, <column>]  ->  (frame text, mask text)
        if isinstance(e, ast.Subscript) and isinstance(e.value, ast.Attribute) and e.value.attr == "loc" and isinstance(e.slice, ast.Tuple) and len(e.slice.elts) == 2:
            return unparse(e.value.value), unparse(e.slice.elts[0])
        return None
    # the fill: cells of one column of the merged frame, selected by a mask, are assigned the same rows of another column
    fills = [n for n in g.stmt_nodes(("stmt",)) if isinstance(n.stmt, ast.Assign) and _masked_loc(n.stmt.targets[0]) is not None
             and _masked_loc(n.stmt.value) == _masked_loc(n.stmt.targets[0])]
    if not fills:
        raise AnalysisError("Pandas _natural_join_step: the cell-wise fill of shared columns was not found")
    for n in fills:
        mask = n.stmt.targets[0].slice.elts[0] if isinstance(n.stmt.targets[0].slice, ast.Tuple) else None
        mname = unparse(mask) if mask is not None else "?"
        excluded = any(lab is False and f"{mname}.all()" in unparse(b.cond) for b, lab in g.lexical_guards(n))
        if excluded:
            res.ok(rule, f"Pandas: the cell-wise fill runs only when some left cell has a value (`{mname}.all()` takes the right column whole)")
        else:
            res.fail_at(rule, pj, "cellwise-fill-into-untyped-column",
                        f"`{unparse(n.stmt)[:80]}` also runs when every left cell is missing: an all-missing left column is float64, and filling it from a text column raises "
                        f"TypeError (Invalid value for dtype 'float64') — since all-missing columns pass the type check, the join is no longer refused cleanly either", n.stmt)


def coalesce_any_type_rule(program, res, rule="C16-S3"):
    """the join's select list coalesces shared columns of any type through the dialect's `coalesce` formatter: a formatter that asks a numeric-only
    question (isNaN) of its operand has to ask it of numbers only (a typeof guard), or every join over a text column fails / misreads the text 'NaN'"""
    import re as _re
    from .. import sqlexpr as _sqlexpr
    n = 0
    for mod, cls in _sqlexpr.DIALECTS:
        try:
            d = _sqlexpr.Dialect(program, mod, cls)
            kind, info = d.resolve("coalesce")
        except AnalysisError:
            continue
        if kind != "formatter":
            res.ok(rule, f"{cls}: coalesce is the native COALESCE", nontrivial=False)
            continue
        fn = d.formatter_func(info)
        n += 1
        bad = None
        for t in _sqlexpr.fold_function(fn):
            text = _sqlexpr.render(t)
            for m in _re.finditer(r"([A-Za-z_]+)\s*\(", text):
                if m.group(1).lower() in NUMERIC_ONLY_SQL_FUNCTIONS:
                    before = text[:m.start()].lower()
                    if "typeof(" not in before:
                        bad = (m.group(1), text)
        # a formatter that repeats its operand's text per level must flatten chains: x.coalesce(y).coalesce(z)… nests binary calls, and k repeats per level
        # make the text grow as k**depth (Spark: seven columns ran out of memory)
        repeats = 0
        for t in _sqlexpr.fold_function(fn):
            text = _sqlexpr.render(t)
            repeats = max(repeats, text.count("⟨x⟩"))
        if repeats >= 2 and not bad:
            fnode = getattr(fn, "node", fn)
            flattens = False
            if isinstance(fnode, ast.AST):
                # a local helper that recognises a nested coalesce call, and is called where the returned text is put together
                helpers = {h.name for h in ast.walk(fnode) if isinstance(h, ast.FunctionDef) and h is not fnode
                           and any(isinstance(c_, ast.Compare) and any(isinstance(k_, ast.Constant) and k_.value == "coalesce" for k_ in ast.walk(c_)) for c_ in ast.walk(h))}
                for r_ in ast.walk(fnode):
                    if isinstance(r_, ast.Return) and r_.value is not None and not any(r_ in list(ast.walk(h)) for h in ast.walk(fnode) if isinstance(h, ast.FunctionDef) and h is not fnode):
                        if any(isinstance(c_, ast.Call) and isinstance(c_.func, ast.Name) and c_.func.id in helpers for c_ in ast.walk(r_.value)):
                            flattens = True
            if not flattens:
                res.fail(rule, f"{mod}:{getattr(fn, 'name', 'coalesce')}", f"coalesce-chain-text-exponential:{cls}",
                         f"{cls} writes each coalesce operand {repeats} times and does not flatten nested coalesce calls: a.coalesce(b).coalesce(c)… repeats the inner text "
                         f"{repeats}x per level (7 columns: 355 kB of SQL, Spark OutOfMemoryError)", f"data_algebra/{mod}.py", getattr(fn, "lineno", 0))
                continue
        if bad:
            res.fail(rule, f"{mod}:{getattr(fn, 'name', 'coalesce')}", f"coalesce-numeric-test-on-any-type:{cls}",
                     f"{cls} formats coalesce as `{bad[1].strip()[:90]}`: {bad[0]}() casts its argument to DOUBLE, and the join's shared columns of any type go through this "
                     f"formatter — a natural_join with a text key fails on Spark 4 (ANSI mode: CAST_INVALID_INPUT), and with ANSI off the text 'NaN' counts as missing",
                     f"data_algebra/{mod}.py", getattr(fn, "lineno", 0))
        else:
            res.ok(rule, f"{cls}: the coalesce formatter asks no numeric-only question of an operand of unknown type")
    res.expect_count(rule, "dialects with a coalesce formatter", n, 5)


def missing_column_type_rule(program, res, rule="C16-S5"):
    """the Pandas join / concat refuse columns of incompatible types, judged by the first non-missing cell.  A column with no non-missing cell carries
    no type (documented: type(None)); taking the type of its first cell makes an all-missing text column float (NaN) and the join that should fill it
    from the other side is refused"""
    f = program.func("util", "guess_carried_scalar_type")
    res.analysed(f)
    g = cfgmod.build(f.node)
    idx = [st.targets[0].id for st in ast.walk(f.node) if isinstance(st, ast.Assign) and len(st.targets) == 1 and isinstance(st.targets[0], ast.Name)
           and "where" in unparse(st.value) and ("isna" in unparse(st.value) or "isnull" in unparse(st.value))]
    if not idx:
        raise AnalysisError("guess_carried_scalar_type: the positions of the non-missing cells (numpy.where(~isna)) were not found")
    name = idx[0]
    ok = False
    for t in g.stmt_nodes(("test",)):
        c = t.cond
        if not (isinstance(c, ast.Compare) and unparse(c.left) == f"len({name})" and isinstance(t.stmt, ast.If)):
            continue
        k = c.comparators[0].value if isinstance(c.comparators[0], ast.Constant) else None
        empty_when_true = (isinstance(c.ops[0], ast.Lt) and k == 1) or (isinstance(c.ops[0], ast.LtE) and k == 0) or (isinstance(c.ops[0], ast.Eq) and k == 0)
        empty_when_false = (isinstance(c.ops[0], ast.Gt) and k == 0) or (isinstance(c.ops[0], ast.GtE) and k == 1)
        arm = t.stmt.body if empty_when_true else (t.stmt.orelse if empty_when_false else [])
        if any(isinstance(r, ast.Return) and unparse(r.value) == "type(None)" for a in arm for r in ast.walk(a)):
            ok = True
    if ok:
        res.ok(rule, "guess_carried_scalar_type: a column without a non-missing cell has type(None), which every type is compatible with")
    else:
        res.fail_at(rule, f, "all-missing-column-typed-by-missing-cell",
                    "guess_carried_scalar_type falls back to the first cell when no cell is non-missing: an all-missing column is float (NaN) and the Pandas join of a text column "
                    "that is all missing on one side raises `incompatible column types: {'s': (str, float)}` — exactly the case 'take the right value where the left is null' exists "
                    "for; Polars and SQLite return the join")


def on_pairs_kept_as_pairs_rule(program, res, rule="C16-S3"):
    """the `on` argument is a list of (left column, right column) pairs; a left column may be compared with two right columns (`[("k","k1"),("k","k2")]`, SQL's
    `ON l.k = r.k1 AND l.k = r.k2`).  The parser therefore has to keep the pairs as a sequence: a dictionary keyed by one side keeps the last partner only"""
    f = program.module("view_representations").functions.get("_convert_on_clause_to_parallel_lists")
    if f is None:
        raise AnalysisError("anchor vanished: view_representations._convert_on_clause_to_parallel_lists")
    res.analysed(f)
    keyed = [st for st in ast.walk(f.node) if isinstance(st, ast.Assign) and isinstance(st.targets[0], ast.Subscript) and isinstance(st.targets[0].slice, ast.Name)]
    from_dict = [r for r in ast.walk(f.node) if isinstance(r, ast.Return) and r.value is not None
                 and any(isinstance(c, ast.Call) and isinstance(c.func, ast.Attribute) and c.func.attr in ("keys", "values", "items") for c in ast.walk(r.value))]
    appends = [c for c in ast.walk(f.node) if isinstance(c, ast.Call) and isinstance(c.func, ast.Attribute) and c.func.attr == "append"]
    if keyed and from_dict:
        res.fail_at(rule, f, "on-pairs-collected-in-dict",
                    f"the key pairs are collected with `{unparse(keyed[0])}` and read back from the dictionary: a left column compared with two right columns keeps its last partner "
                    f"only, so on=[('k','k1'),('k','k2')] joins on k = k2 alone on every executor (extra matched rows, unmatched rows lost)", keyed[0])
    elif len(appends) >= 2:
        res.ok(rule, "the on-clause parser appends every pair to both key lists (a repeated column keeps all its partners)")
    else:
        res.abstain(rule, "_convert_on_clause_to_parallel_lists", "neither the append form nor a keyed store recognised")


def run(program, res, tier):
    res.rule("C16-S1", "join-type vocabulary maps to the same join in every back end")
    res.rule("C16-S2", "a rewrite that permutes a join node's sources permutes on_a/on_b with them")
    res.rule("C16-S3", "coalesce of shared columns prefers the left input; ON pairs on_a[i] with on_b[i]; twin clean-up is pairwise")
    res.rule("C16-S4", "null-key behaviour of the third-party joins (API contracts)")
    _s1(program, res)
    paired_field_rewrite(program, res)
    _s3(program, res)
    on_pairs_kept_as_pairs_rule(program, res)
    _s3c(program, res)
    coalesce_any_type_rule(program, res)
    _s4(program, res)
    res.rule("C16-S5", "joins of empty or all-missing inputs keep / ignore column types the way SQL does")
    from . import c03 as _c03
    _c03.empty_frame_types_rule(program, res, rule="C16-S5", methods={"_natural_join_step"})
    missing_column_type_rule(program, res)
    pandas_fill_untyped_rule(program, res)
