"""E1 program index: parse every module of the package from the working tree (never imports it).

Gives modules, import-alias resolution, a class table with C3-ish MRO, method lookup by MRO,
module-level constants and per-function AST access.  Everything a rule addresses is found through
this index by role (class -> method), never by line number or text.
"""
from __future__ import annotations

import ast
import os
from typing import Dict, Iterable, List, Optional, Tuple

REPO = os.environ.get("VERIF_REPO", "/repo")
PKG = "data_algebra"


class AnalysisError(Exception):
    """The analyser cannot decide (vanished anchor, unrecognised idiom).  Exit 2, never a verdict."""


class FuncInfo:
    def __init__(self, module: "ModuleInfo", node: ast.FunctionDef, cls: Optional["ClassInfo"], parent=None):
        self.module = module
        self.node = node
        self.cls = cls
        self.name = node.name
        self.parent = parent
        if cls is not None:
            self.qualname = f"{cls.name}.{node.name}"
        elif parent is not None:
            self.qualname = f"{parent.qualname}.{node.name}"
        else:
            self.qualname = node.name

    @property
    def file(self) -> str:
        return self.module.relpath

    @property
    def line(self) -> int:
        return self.node.lineno

    def params(self) -> List[str]:
        a = self.node.args
        return [x.arg for x in a.posonlyargs + a.args + a.kwonlyargs] + (
            [a.vararg.arg] if a.vararg else []) + ([a.kwarg.arg] if a.kwarg else [])

    def where(self) -> str:
        return f"{self.module.name}:{self.qualname}"

    def __repr__(self):
        return f"<Func {self.where()}>"


class ClassInfo:
    def __init__(self, module: "ModuleInfo", node: ast.ClassDef):
        self.module = module
        self.node = node
        self.name = node.name
        self.methods: Dict[str, FuncInfo] = {}
        self.class_consts: Dict[str, ast.AST] = {}
        self.base_exprs = node.bases
        self.bases: List["ClassInfo"] = []
        for st in node.body:
            if isinstance(st, (ast.FunctionDef, ast.AsyncFunctionDef)):
                self.methods[st.name] = FuncInfo(module, st, self)
            elif isinstance(st, ast.Assign) and len(st.targets) == 1 and isinstance(st.targets[0], ast.Name):
                self.class_consts[st.targets[0].id] = st.value
            elif isinstance(st, ast.AnnAssign) and isinstance(st.target, ast.Name) and st.value is not None:
                self.class_consts[st.target.id] = st.value

    def mro(self) -> List["ClassInfo"]:
        out: List[ClassInfo] = []
        seen = set()

        def walk(c: "ClassInfo"):
            if id(c) in seen:
                return
            seen.add(id(c))
            out.append(c)
            for b in c.bases:
                walk(b)

        walk(self)
        return out

    def find_method(self, name: str) -> Optional[FuncInfo]:
        for c in self.mro():
            if name in c.methods:
                return c.methods[name]
        return None

    def is_subclass_of(self, other: "ClassInfo") -> bool:
        return any(c is other for c in self.mro())

    def where(self) -> str:
        return f"{self.module.name}:{self.name}"

    def __repr__(self):
        return f"<Class {self.where()}>"


class ModuleInfo:
    def __init__(self, name: str, path: str, relpath: str):
        self.name = name
        self.path = path
        self.relpath = relpath
        with open(path, "r", encoding="utf-8") as f:
            self.source = f.read()
        self.tree = ast.parse(self.source, filename=path)
        self.functions: Dict[str, FuncInfo] = {}
        self.classes: Dict[str, ClassInfo] = {}
        self.consts: Dict[str, ast.AST] = {}
        self.imports: Dict[str, str] = {}  # local alias -> dotted target
        self.toplevel: List[ast.stmt] = self.tree.body
        for st in self.tree.body:
            if isinstance(st, (ast.FunctionDef, ast.AsyncFunctionDef)):
                self.functions[st.name] = FuncInfo(self, st, None)
            elif isinstance(st, ast.ClassDef):
                self.classes[st.name] = ClassInfo(self, st)
            elif isinstance(st, ast.Assign) and len(st.targets) == 1 and isinstance(st.targets[0], ast.Name):
                self.consts[st.targets[0].id] = st.value
            elif isinstance(st, ast.AnnAssign) and isinstance(st.target, ast.Name) and st.value is not None:
                self.consts[st.target.id] = st.value
            elif isinstance(st, ast.Import):
                for al in st.names:
                    if al.asname:
                        self.imports[al.asname] = al.name
                    else:
                        self.imports[al.name.split(".")[0]] = al.name.split(".")[0]
            elif isinstance(st, ast.ImportFrom) and st.module:
                for al in st.names:
                    self.imports[al.asname or al.name] = st.module + "." + al.name

    def segment(self, node: ast.AST) -> str:
        return ast.get_source_segment(self.source, node) or ""


class Program:
    def __init__(self, repo: Optional[str] = None):
        self.repo = repo or REPO
        self.pkgdir = os.path.join(self.repo, PKG)
        if not os.path.isdir(self.pkgdir):
            raise AnalysisError(f"package directory not found: {self.pkgdir}")
        self.modules: Dict[str, ModuleInfo] = {}
        for fn in sorted(os.listdir(self.pkgdir)):
            if fn.endswith(".py"):
                name = fn[:-3]
                path = os.path.join(self.pkgdir, fn)
                try:
                    self.modules[name] = ModuleInfo(name, path, f"{PKG}/{fn}")
                except SyntaxError as e:
                    raise AnalysisError(f"cannot parse {path}: {e}")
        self._link_bases()

    # ---- lookup helpers (all raise AnalysisError when an anchor vanished) ----
    def module(self, name: str) -> ModuleInfo:
        if name not in self.modules:
            raise AnalysisError(f"anchor vanished: module {PKG}.{name}")
        return self.modules[name]

    def cls(self, module: str, name: str) -> ClassInfo:
        m = self.module(module)
        if name not in m.classes:
            raise AnalysisError(f"anchor vanished: class {module}.{name}")
        return m.classes[name]

    def func(self, module: str, name: str) -> FuncInfo:
        m = self.module(module)
        if name not in m.functions:
            raise AnalysisError(f"anchor vanished: function {module}.{name}")
        return m.functions[name]

    def method(self, module: str, cls: str, name: str, inherited: bool = True) -> FuncInfo:
        c = self.cls(module, cls)
        f = c.find_method(name) if inherited else c.methods.get(name)
        if f is None:
            raise AnalysisError(f"anchor vanished: method {module}.{cls}.{name}")
        return f

    def const(self, module: str, name: str) -> ast.AST:
        m = self.module(module)
        if name not in m.consts:
            raise AnalysisError(f"anchor vanished: constant {module}.{name}")
        return m.consts[name]

    def all_classes(self) -> Iterable[ClassInfo]:
        for m in self.modules.values():
            yield from m.classes.values()

    def all_functions(self) -> Iterable[FuncInfo]:
        """every module function, method, and nested function"""
        for m in self.modules.values():
            for f in m.functions.values():
                yield f
                yield from self._nested(f)
            for c in m.classes.values():
                for f in c.methods.values():
                    yield f
                    yield from self._nested(f)

    def _nested(self, f: FuncInfo) -> Iterable[FuncInfo]:
        for n in ast.walk(f.node):
            if n is not f.node and isinstance(n, (ast.FunctionDef, ast.AsyncFunctionDef)):
                yield FuncInfo(f.module, n, None, parent=f)

    def subclasses(self, base: ClassInfo, strict: bool = True) -> List[ClassInfo]:
        out = []
        for c in self.all_classes():
            if c.is_subclass_of(base) and (not strict or c is not base):
                out.append(c)
        return out

    def resolve_class_expr(self, module: ModuleInfo, expr: ast.AST) -> Optional[ClassInfo]:
        """resolve a Name / dotted Attribute naming a class of the package"""
        dotted = dotted_name(expr)
        if dotted is None:
            return None
        parts = dotted.split(".")
        if len(parts) == 1:
            if parts[0] in module.classes:
                return module.classes[parts[0]]
            tgt = module.imports.get(parts[0])
            if tgt:
                parts = tgt.split(".")
            else:
                return None
        else:
            head = module.imports.get(parts[0])
            if head:
                parts = head.split(".") + parts[1:]
        # data_algebra.<mod>.<Class>
        if len(parts) == 3 and parts[0] == PKG and parts[1] in self.modules:
            m = self.modules[parts[1]]
            if parts[2] in m.classes:
                return m.classes[parts[2]]
            # re-export (data_ops re-exports view_representations)
            tgt = m.imports.get(parts[2])
            if tgt:
                tp = tgt.split(".")
                if len(tp) >= 3 and tp[1] in self.modules and tp[2] in self.modules[tp[1]].classes:
                    return self.modules[tp[1]].classes[tp[2]]
        return None

    def resolve_function_expr(self, module: ModuleInfo, expr: ast.AST) -> Optional[FuncInfo]:
        """resolve a Name / dotted Attribute naming a module-level function of the package"""
        dotted = dotted_name(expr)
        if dotted is None:
            return None
        parts = dotted.split(".")
        if len(parts) == 1:
            if parts[0] in module.functions:
                return module.functions[parts[0]]
            tgt = module.imports.get(parts[0])
            if not tgt:
                return None
            parts = tgt.split(".")
        else:
            head = module.imports.get(parts[0])
            if head:
                parts = head.split(".") + parts[1:]
        if len(parts) == 3 and parts[0] == PKG and parts[1] in self.modules:
            return self.modules[parts[1]].functions.get(parts[2])
        return None

    def _link_bases(self):
        for c in self.all_classes():
            for b in c.base_exprs:
                bc = self.resolve_class_expr(c.module, b)
                if bc is not None:
                    c.bases.append(bc)


def dotted_name(expr: ast.AST) -> Optional[str]:
    parts = []
    while isinstance(expr, ast.Attribute):
        parts.append(expr.attr)
        expr = expr.value
    if isinstance(expr, ast.Name):
        parts.append(expr.id)
        return ".".join(reversed(parts))
    return None


def attr_chain(expr: ast.AST) -> Optional[Tuple[str, ...]]:
    d = dotted_name(expr)
    return tuple(d.split(".")) if d else None


def self_fields_read(node: ast.AST, receiver: str = "self") -> Dict[str, List[ast.Attribute]]:
    """attribute names read as `<receiver>.<name>` anywhere under node"""
    out: Dict[str, List[ast.Attribute]] = {}
    for n in ast.walk(node):
        if isinstance(n, ast.Attribute) and isinstance(n.value, ast.Name) and n.value.id == receiver:
            if isinstance(n.ctx, ast.Load):
                out.setdefault(n.attr, []).append(n)
    return out


def self_fields_written(node: ast.AST, receiver: str = "self") -> Dict[str, List[ast.AST]]:
    out: Dict[str, List[ast.AST]] = {}
    for n in ast.walk(node):
        if isinstance(n, ast.Attribute) and isinstance(n.value, ast.Name) and n.value.id == receiver:
            if isinstance(n.ctx, (ast.Store, ast.Del)):
                out.setdefault(n.attr, []).append(n)
    return out


def literal(node: ast.AST):
    try:
        return ast.literal_eval(node)
    except Exception:
        raise AnalysisError(f"not a literal: {ast.dump(node)[:80]}")


def unparse(node: ast.AST) -> str:
    try:
        return ast.unparse(node)
    except Exception:
        return "<?>"


def walk_no_nested(node: ast.AST):
    """ast.walk that does not descend into nested function/class definitions (or lambdas' bodies kept)"""
    todo = [node]
    first = True
    while todo:
        n = todo.pop()
        if not first and isinstance(n, (ast.FunctionDef, ast.AsyncFunctionDef, ast.ClassDef)):
            continue
        first = False
        yield n
        todo.extend(ast.iter_child_nodes(n))


def inline_local_consts(fnode: ast.AST) -> ast.AST:
    """a copy of the function in which every local bound exactly once to a str constant (never re-bound, not a parameter)
    is replaced by that constant at its uses: `sfx = "_x"; f(c + sfx)` reads as `f(c + "_x")` (behaviour-preserving
    hoisting of a literal must not change what a rule sees)"""
    import copy
    fn = copy.deepcopy(fnode)
    counts: Dict[str, int] = {}
    consts: Dict[str, ast.Constant] = {}
    a = fn.args
    params = {x.arg for x in a.posonlyargs + a.args + a.kwonlyargs}
    for n in ast.walk(fn):
        if isinstance(n, ast.Name) and isinstance(n.ctx, (ast.Store, ast.Del)):
            counts[n.id] = counts.get(n.id, 0) + 1
        if isinstance(n, ast.Assign) and len(n.targets) == 1 and isinstance(n.targets[0], ast.Name) \
                and isinstance(n.value, ast.Constant) and isinstance(n.value.value, str):
            consts[n.targets[0].id] = n.value
    ok = {k: v for k, v in consts.items() if counts.get(k) == 1 and k not in params}

    class R(ast.NodeTransformer):
        def visit_Name(self, node):
            if isinstance(node.ctx, ast.Load) and node.id in ok:
                return ast.copy_location(ast.Constant(ok[node.id].value), node)
            return node
    fn = ast.fix_missing_locations(R().visit(fn))
    # pure name-building aliases bound once:  right_c = c + "_x"  (operands: names and constants only)
    pure: Dict[str, ast.AST] = {}
    for n in ast.walk(fn):
        if isinstance(n, ast.Assign) and len(n.targets) == 1 and isinstance(n.targets[0], ast.Name) and counts.get(n.targets[0].id) == 1 \
                and n.targets[0].id not in params and isinstance(n.value, (ast.BinOp, ast.JoinedStr)) \
                and all(isinstance(x, (ast.BinOp, ast.Add, ast.Name, ast.Constant, ast.Load, ast.JoinedStr, ast.FormattedValue)) for x in ast.walk(n.value)) \
                and any(isinstance(x, ast.Constant) and isinstance(x.value, str) for x in ast.walk(n.value)):
            operands = {x.id for x in ast.walk(n.value) if isinstance(x, ast.Name)}
            plain_assigned = {t.id for a_ in ast.walk(fn) if isinstance(a_, (ast.Assign, ast.AugAssign))
                              for t in ast.walk(a_.targets[0] if isinstance(a_, ast.Assign) else a_.target) if isinstance(t, ast.Name) and isinstance(t.ctx, ast.Store)}
            if all((o not in plain_assigned) or counts.get(o, 0) <= 1 for o in operands):
                pure[n.targets[0].id] = n.value

    class R2(ast.NodeTransformer):
        def visit_Name(self, node):
            if isinstance(node.ctx, ast.Load) and node.id in pure:
                import copy as _c
                return ast.copy_location(_c.deepcopy(pure[node.id]), node)
            return node
    return ast.fix_missing_locations(R2().visit(fn))
