"""Entry point: python -m sa.check <ID> [--tier quick|thorough] [--replay file] [--repo dir]"""
from __future__ import annotations

import argparse
import importlib
import json
import os
import sys
import time
import traceback


def main(argv=None) -> int:
    ap = argparse.ArgumentParser()
    ap.add_argument("prop")
    ap.add_argument("--tier", default=os.environ.get("VERIF_TIER", "quick"), choices=["quick", "thorough"])
    ap.add_argument("--replay", default=None)
    ap.add_argument("--repo", default=None)
    args = ap.parse_args(argv)
    if args.repo:
        os.environ["VERIF_REPO"] = args.repo
    from . import index, report
    if args.repo:
        index.REPO = args.repo
    prop = args.prop.upper()
    t0 = time.time()
    try:
        mod = importlib.import_module(f"sa.rules.{prop.lower()}")
    except ModuleNotFoundError:
        print(f"ANALYSIS-ERROR property={prop}: no rule module")
        return 2
    try:
        program = index.Program(index.REPO)
        res = report.Result(prop)
        mod.run(program, res, args.tier)
        if args.replay:
            with open(args.replay) as fh:
                want = json.load(fh)
            key = (want.get("rule"), want.get("where"), want.get("construct"))
            hits = [f for f in res.findings if f.key() == key]
            if hits:
                for f in hits:
                    print("  " + f.text())
                print(f"VIOLATION property={prop} replay={args.replay}")
                return 1
            print(f"replay: {key} no longer violated on the current tree")
            return 0
        if args.tier == "thorough":
            from . import thorough
            thorough.extend(program, res, prop, index.REPO)
        return report.finish(res, args.tier, t0, mod.EXPLANATION)
    except index.AnalysisError as e:
        print(f"ANALYSIS-ERROR property={prop}: {e}")
        return 2
    except Exception:
        traceback.print_exc()
        print(f"ANALYSIS-ERROR property={prop}: analyser exception (not a verdict)")
        return 2


if __name__ == "__main__":
    sys.exit(main())
