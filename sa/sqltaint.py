"""Sink-driven backward slicing of SQL text (used by C14, C15).

For an expression that becomes SQL text, `Slicer.leaves` follows the string-building operators (concatenation,
f-strings, join, list / dict displays and comprehensions, conditional expressions, subscripts), local variables (every
definition of the name in the function: assignments, loop and comprehension targets, append / extend / update /
subscript stores) and calls to methods of the SQL model (inlined with the arguments bound, bounded depth), down to
leaves:

  const            string / number constant
  san:<name>       result of a sanitiser (quote_identifier, quote_string, value_to_sql, expr_to_sql, ...)
  gen:<name>       result of another SQL-producing function of the generator (checked as its own sink)
  config:<text>    dialect configuration (self.<attr>, sql_format_options.<attr>)
  num              a number (len(), range index, counter, int())
  nsfield:<attr>   field of a NearSQL object read by an emitter  -> obligation on every constructor keyword / store
  param:<f>:<p>    parameter of the sink function itself         -> obligation on every call site (demand)
  field:<path>     attribute path rooted at a parameter (user data: node fields, record specifications)
  call:<name>      a call that is not modelled
Dict-valued expressions are sliced in 'key' or 'val' mode (terms dictionaries have raw names as keys and SQL as values).
"""
from __future__ import annotations

import ast
from typing import Dict, List, Optional, Set, Tuple

from .index import FuncInfo, Program, dotted_name, unparse

SANITISERS = {"quote_identifier", "quote_table_name", "quote_string", "value_to_sql", "expr_to_sql", "_clean_annotation",
              "quote_literal"}
# calls whose results are SQL produced (and checked) elsewhere in the generator
GENERATED = {"convert_subsql", "to_sql_str_list", "to_near_sql_implementation_", "to_with_form", "to_bound_near_sql",
             "table_values_to_sql_str_list", "row_recs_to_blocks_query_str_list_pair", "blocks_to_row_recs_query_str_list_pair",
             "nearsqlcte_to_sql_str_list_", "nearsqltable_to_sql_str_list_", "nearsqlunary_to_sql_str_list_",
             "nearsqlrawq_to_sql_str_list_", "nearsqlbinary_to_sql_str_list_", "to_sql", "_natural_join_sub_queries"}
STR_PASS = {"upper", "lower", "strip", "rstrip", "lstrip", "format", "copy", "title", "capitalize", "casefold", "replace",
            "splitlines", "split", "rsplit", "expandtabs", "translate", "removeprefix", "removesuffix", "ljust", "rjust", "center"}
NUMERIC_CALLS = {"len", "int", "float", "range", "abs", "max", "min", "round", "sum", "enumerate"}
PASS_CALLS = {"str", "list", "tuple", "set", "sorted", "reversed", "OrderedDict", "dict", "OrderedSet", "repr", "zip"}
REWRITERS = {"split", "splitlines", "rsplit", "partition", "rpartition", "replace", "translate", "expandtabs", "lower", "upper",
             "casefold", "title", "capitalize", "swapcase", "strip", "lstrip", "removeprefix", "removesuffix", "format"}
RE_REWRITERS = {"re.sub", "re.subn", "re.split", "textwrap.dedent", "textwrap.fill", "textwrap.wrap", "textwrap.indent"}

Leaf = Tuple


class Scope:
    """definitions of local names in one function body (nested functions excluded)"""

    def __init__(self, fnode: ast.AST, parent: Optional["Scope"] = None, bindings: Optional[Dict[str, Tuple["Scope", ast.AST]]] = None,
                 qual: str = "", self_name: Optional[str] = None, module=None, nearsql_roots=()):
        self.module = module if module is not None else (parent.module if parent is not None else None)
        self.nearsql_roots = set(nearsql_roots)
        self.fnode = fnode
        self.parent = parent
        self.bindings = bindings  # param -> (caller scope, argument expr) for inlined calls
        self.qual = qual
        self.self_name = self_name
        a = fnode.args
        self.params = [x.arg for x in a.posonlyargs + a.args + a.kwonlyargs]
        self.defaults: Dict[str, ast.AST] = {}
        pos = a.posonlyargs + a.args
        for p, d in zip(pos[len(pos) - len(a.defaults):], a.defaults):
            self.defaults[p.arg] = d
        for p, d in zip(a.kwonlyargs, a.kw_defaults):
            if d is not None:
                self.defaults[p.arg] = d
        self.defs: Dict[str, List[Tuple[str, ast.AST, object]]] = {}
        self.nested: Dict[str, ast.AST] = {}
        self.isinstance_facts: Dict[str, str] = {}
        body = fnode.body if isinstance(fnode.body, list) else [ast.Expr(fnode.body)]
        for st in body:
            self._collect(st)

    def _add(self, name, how, expr, extra=None):
        self.defs.setdefault(name, []).append((how, expr, extra))

    def _target(self, t, how, expr, path=()):
        if isinstance(t, ast.Name):
            self._add(t.id, how, expr, path)
        elif isinstance(t, (ast.Tuple, ast.List)):
            for i, e in enumerate(t.elts):
                self._target(e, how, expr, path + (i,))
        elif isinstance(t, ast.Subscript) and isinstance(t.value, ast.Name):
            self._add(t.value.id, "store", expr, t.slice)
        elif isinstance(t, ast.Starred):
            self._target(t.value, how, expr, path)

    def _collect(self, st):
        if isinstance(st, (ast.FunctionDef, ast.AsyncFunctionDef)):
            self.nested[st.name] = st
            return
        if isinstance(st, ast.ClassDef):
            return
        if isinstance(st, ast.Assign):
            for t in st.targets:
                self._target(t, "assign", st.value)
        elif isinstance(st, ast.AnnAssign) and st.value is not None:
            self._target(st.target, "assign", st.value)
        elif isinstance(st, ast.AugAssign):
            self._target(st.target, "assign", st.value)
        elif isinstance(st, (ast.For, ast.AsyncFor)):
            self._target(st.target, "iter", st.iter)
        elif isinstance(st, (ast.With, ast.AsyncWith)):
            for it in st.items:
                if it.optional_vars is not None:
                    self._target(it.optional_vars, "assign", it.context_expr)
        elif isinstance(st, ast.Expr) and isinstance(st.value, ast.Call):
            c = st.value
            if isinstance(c.func, ast.Attribute) and isinstance(c.func.value, ast.Name) and c.func.attr in ("append", "extend", "update", "add", "insert"):
                for a in c.args:
                    self._add(c.func.value.id, "grow" if c.func.attr != "update" else "assign", a)
        elif isinstance(st, ast.Assert):
            c = st.test
            if isinstance(c, ast.Call) and dotted_name(c.func) == "isinstance" and len(c.args) == 2 and isinstance(c.args[0], ast.Name):
                self.isinstance_facts[c.args[0].id] = unparse(c.args[1])
        for fld in ("body", "orelse", "finalbody", "handlers"):
            for sub in getattr(st, fld, []) or []:
                if isinstance(sub, ast.ExceptHandler):
                    for s2 in sub.body:
                        self._collect(s2)
                elif isinstance(sub, ast.stmt):
                    self._collect(sub)


class Slicer:
    def __init__(self, program: Program, family: List, config_roots: Set[str] = frozenset({"sql_format_options"}),
                 nearsql_fields: Set[str] = frozenset(), max_depth: int = 4):
        """family: classes whose methods may be inlined through `self.<m>(...)` (most-derived first)"""
        self.program = program
        self.family = family
        self.config_roots = set(config_roots)
        self.nearsql_fields = set(nearsql_fields)
        self.max_depth = max_depth
        self.rewrites: List[Tuple[ast.AST, str]] = []  # (call node, what) : text-rewriting call applied on the way

    def method(self, name: str) -> Optional[FuncInfo]:
        for c in self.family:
            m = c.find_method(name)
            if m is not None:
                return m
        return None

    # -------------------------------------------------------------
    def leaves(self, scope: Scope, e: ast.AST, mode: str = "val", depth: int = 0, seen: Optional[Set] = None,
               comp_env: Optional[Dict[str, Tuple[ast.AST, tuple, Optional[Dict]]]] = None) -> Set[Leaf]:
        seen = seen if seen is not None else set()
        comp_env = comp_env or {}
        L = lambda x, m=mode, env=comp_env: self.leaves(scope, x, m, depth, seen, env)
        if e is None:
            return set()
        if isinstance(e, ast.Constant):
            if isinstance(e.value, (int, float)) and not isinstance(e.value, bool):
                return {("num",)}
            return {("const",)}
        if isinstance(e, ast.JoinedStr):
            out = set()
            for v in e.values:
                out |= L(v.value) if isinstance(v, ast.FormattedValue) else {("const",)}
            return out
        if isinstance(e, ast.FormattedValue):
            return L(e.value)
        if isinstance(e, ast.BinOp):
            if isinstance(e.op, (ast.Add, ast.Mod, ast.BitOr)):
                return L(e.left) | L(e.right)
            if isinstance(e.op, ast.Mult):
                return L(e.left) | L(e.right)
            return {("num",)}
        if isinstance(e, ast.BoolOp):
            out = set()
            for v in e.values:
                out |= L(v)
            return out
        if isinstance(e, ast.Compare) or (isinstance(e, ast.UnaryOp) and isinstance(e.op, ast.Not)):
            return {("const",)}
        if isinstance(e, ast.UnaryOp):
            return {("num",)}
        if isinstance(e, ast.IfExp):
            return L(e.body) | L(e.orelse)
        if isinstance(e, (ast.List, ast.Tuple, ast.Set)):
            out = set()
            for x in e.elts:
                out |= L(x)
            return out
        if isinstance(e, ast.Starred):
            return L(e.value)
        if isinstance(e, ast.Dict):
            out = set()
            for k, v in zip(e.keys, e.values):
                if k is None:
                    out |= L(v)
                elif mode != "key" and unparse(k) == unparse(v):
                    out.add(("keyalias",))
                else:
                    out |= L(k if mode == "key" else v)
            return out
        if isinstance(e, (ast.ListComp, ast.SetComp, ast.GeneratorExp, ast.DictComp)):
            env = dict(comp_env)
            for gen in e.generators:
                self._bind_comp(gen.target, gen.iter, (), env)
            if isinstance(e, ast.DictComp):
                if mode != "key" and unparse(e.key) == unparse(e.value):
                    return {("keyalias",)}
                return self.leaves(scope, e.key if mode == "key" else e.value, "val", depth, seen, env)
            return self.leaves(scope, e.elt, mode, depth, seen, env)
        if isinstance(e, ast.Subscript):
            # X[i] : element / value of X
            base = self.leaves(scope, e.value, "val", depth, seen, comp_env)
            if isinstance(e.slice, ast.Slice):
                self.rewrites.append((e, "slice", (scope, e.value, dict(comp_env))))
            return base
        if isinstance(e, ast.Name):
            return self._name(scope, e.id, mode, depth, seen, comp_env)
        if isinstance(e, ast.Attribute):
            return self._attribute(scope, e, mode, depth, seen, comp_env)
        if isinstance(e, ast.Call):
            return self._call(scope, e, mode, depth, seen, comp_env)
        if isinstance(e, ast.Lambda):
            return {("other", "lambda")}
        return {("other", type(e).__name__)}

    def _bind_comp(self, target, it, path, env):
        if isinstance(target, ast.Name):
            env[target.id] = (it, path, dict(env))
        elif isinstance(target, (ast.Tuple, ast.List)):
            for i, t in enumerate(target.elts):
                self._bind_comp(t, it, path + (i,), env)

    def _iter_elem(self, scope, it: ast.AST, path: tuple, depth, seen, comp_env) -> Set[Leaf]:
        """leaves of the element (component `path`) of iterating `it`"""
        if isinstance(it, ast.Call):
            fn = it.func
            if isinstance(fn, ast.Attribute) and fn.attr in ("items", "keys", "values") and not it.args:
                if fn.attr == "keys" or (fn.attr == "items" and path[:1] == (0,)):
                    return self.leaves(scope, fn.value, "key", depth, seen, comp_env)
                return self.leaves(scope, fn.value, "val", depth, seen, comp_env)
            name = dotted_name(fn)
            if name == "zip" and path:
                i = path[0]
                if i < len(it.args):
                    return self._iter_elem(scope, it.args[i], path[1:], depth, seen, comp_env)
            if name == "enumerate" and path:
                if path[0] == 0:
                    return {("num",)}
                return self._iter_elem(scope, it.args[0], path[1:], depth, seen, comp_env)
            if name == "range":
                return {("num",)}
            if name in ("sorted", "list", "set", "reversed", "tuple") and it.args:
                return self._iter_elem(scope, it.args[0], path, depth, seen, comp_env)
        # iterating a dict variable yields its keys
        return self.leaves(scope, it, "key", depth, seen, comp_env)

    def _name(self, scope: Scope, name: str, mode, depth, seen, comp_env) -> Set[Leaf]:
        if name in comp_env:
            it, path, env0 = comp_env[name]
            return self._iter_elem(scope, it, path, depth, seen, env0 or {})
        if name in self.config_roots:
            return {("config", name)}
        key = (id(scope), name, mode)
        if key in seen:
            return set()
        seen.add(key)
        out: Set[Leaf] = set()
        s: Optional[Scope] = scope
        while s is not None:
            if name in s.defs or name in s.params or name in s.nested:
                break
            s = s.parent
        if s is None:
            if name in ("True", "False", "None"):
                return {("const",)}
            return {("global", name)}
        if name in s.params:
            if s.bindings is not None:
                if name in s.bindings:
                    cs, arg = s.bindings[name]
                    out |= self.leaves(cs, arg, mode, depth, seen, {})
                elif name in s.defaults:
                    out |= self.leaves(s, s.defaults[name], mode, depth, seen, {})
            elif name == s.self_name:
                out.add(("config", name))
            else:
                out.add(("param", s.qual, name))
        for (how, expr, extra) in s.defs.get(name, []):
            if how == "assign":
                out |= self.leaves(s, expr, mode, depth, seen, {})
            elif how == "iter":
                out |= self._iter_elem(s, expr, tuple(extra or ()), depth, seen, {})
            elif how == "grow":
                out |= self.leaves(s, expr, mode, depth, seen, {})
            elif how == "store":
                if mode != "key" and unparse(extra) == unparse(expr):
                    out.add(("keyalias",))  # D[k] = k : the value is the key itself (enc_term_ quotes it)
                else:
                    out |= self.leaves(s, extra if mode == "key" else expr, "val", depth, seen, {})
        return out

    def _attribute(self, scope: Scope, e: ast.Attribute, mode, depth, seen, comp_env) -> Set[Leaf]:
        chain = []
        x = e
        while isinstance(x, ast.Attribute):
            chain.append(x.attr)
            x = x.value
        chain.reverse()
        if isinstance(x, ast.Name):
            root = x.id
            # is the root a parameter bound (inlining) to something else?
            if root in comp_env or self._is_local(scope, root):
                base = self.leaves(scope, x, mode, depth, seen, comp_env)
                return {self._extend(l, chain) for l in base}
            owner = self._owner(scope, root)
            if owner is not None and owner.bindings is not None and root in owner.bindings:
                cs, arg = owner.bindings[root]
                base = self.leaves(cs, arg, mode, depth, seen, {})
                return {self._extend(l, chain) for l in base}
            if owner is not None and root == owner.self_name:
                return {("config", "self." + ".".join(chain))}
            if root in self.config_roots:
                return {("config", root + "." + ".".join(chain))}
            if owner is not None:
                if chain[-1] in self.nearsql_fields and self._is_nearsql(owner, root, chain):
                    return {("nsfield", chain[-1])}
                return {("field", owner.qual, root + "." + ".".join(chain))}
            return {("global", root + "." + ".".join(chain))}
        base = self.leaves(scope, x, mode, depth, seen, comp_env)
        return {self._extend(l, chain) for l in base}

    def _is_nearsql(self, owner: Scope, root: str, chain) -> bool:
        t = owner.isinstance_facts.get(root, "")
        return root in owner.nearsql_roots or "near_sql" in t or root in ("near_sql", "subsql", "sub_sql") or "near_sql" in chain or "sub_sql" in chain \
            or any(c.startswith("sub_sql") for c in chain)

    def _extend(self, l: Leaf, chain) -> Leaf:
        if l[0] == "nsfield" and chain and chain[-1] in self.nearsql_fields:
            # a field of a NearSQL object reached through a container / alias: the field read is the last one named
            return ("nsfield", chain[-1])
        if l[0] == "field":
            return ("field", l[1], l[2] + "." + ".".join(chain))
        if l[0] == "param":
            return ("field", l[1], l[2] + "." + ".".join(chain))
        if l[0] == "config":
            return ("config", l[1] + "." + ".".join(chain))
        return l

    def _owner(self, scope: Scope, name: str) -> Optional[Scope]:
        s = scope
        while s is not None:
            if name in s.params:
                return s
            s = s.parent
        return None

    def _is_local(self, scope: Scope, name: str) -> bool:
        s = scope
        while s is not None:
            if name in s.defs and name not in s.params:
                return True
            if name in s.params:
                return False
            s = s.parent
        return False

    def _call(self, scope: Scope, c: ast.Call, mode, depth, seen, comp_env) -> Set[Leaf]:
        fn = c.func
        L = lambda x, m=mode: self.leaves(scope, x, m, depth, seen, comp_env)
        name = dotted_name(fn) or ""
        if name == "getattr" and len(c.args) >= 2 and isinstance(c.args[1], ast.Constant) and isinstance(c.args[1].value, str):
            # getattr(x, "f"[, default]) is the attribute x.f (or the default)
            out = L(ast.copy_location(ast.Attribute(value=c.args[0], attr=c.args[1].value, ctx=ast.Load()), c))
            if len(c.args) > 2:
                out |= L(c.args[2])
            return out
        if isinstance(fn, ast.Name):
            # local alias of a sanitiser:  qi = self.quote_identifier
            for s in self._scopes(scope):
                for (how, expr, _x) in s.defs.get(fn.id, []):
                    if how == "assign" and isinstance(expr, ast.Attribute) and expr.attr in SANITISERS:
                        return {("san", expr.attr)}
                if fn.id in s.nested:
                    return self._inline(s, s.nested[fn.id], c, scope, mode, depth, seen, comp_env, self_name=None, qual=s.qual + "." + fn.id)
            if fn.id in SANITISERS:
                return {("san", fn.id)}
            if fn.id in NUMERIC_CALLS:
                return {("num",)}
            if fn.id in PASS_CALLS:
                out = set()
                for a in c.args:
                    out |= L(a)
                return out
            if fn.id == "isinstance":
                return {("const",)}
            # local bound to a formatter: f = self.sql_formatters[...]
            for s in self._scopes(scope):
                for (how, expr, _x) in s.defs.get(fn.id, []):
                    if how == "assign" and isinstance(expr, ast.Subscript) and "sql_formatters" in unparse(expr.value):
                        out = {("gen", "formatter")}
                        for a in c.args[1:]:
                            out |= L(a)
                        return out
            mod = scope.module
            if mod is not None and fn.id in mod.functions and depth < self.max_depth:
                f = mod.functions[fn.id]
                return self._inline(None, f.node, c, scope, mode, depth, seen, comp_env, self_name=None, qual=f.qualname, module=mod)
            out = {("call", fn.id)}
            for a in list(c.args) + [k.value for k in c.keywords]:
                out |= L(a)
            return out
        if isinstance(fn, ast.Subscript) and "sql_formatters" in unparse(fn.value):
            return {("gen", "formatter")}
        if isinstance(fn, ast.Attribute):
            m = fn.attr
            if m in SANITISERS:
                return {("san", m)}
            if m in GENERATED:
                return {("gen", m)}
            if m == "join":
                out = L(fn.value)
                for a in c.args:
                    out |= L(a)
                return out
            if name in RE_REWRITERS:
                out = set()
                for a in c.args[1:] if name.startswith("re.") else c.args:
                    out |= L(a)
                if c.args:
                    self.rewrites.append((c, name, (scope, c.args[-1], dict(comp_env))))
                return out
            if m in ("keys",):
                return self.leaves(scope, fn.value, "key", depth, seen, comp_env)
            if m in ("values", "get", "pop", "copy", "items"):
                return L(fn.value)
            recv_root = fn.value.id if isinstance(fn.value, ast.Name) else None
            owner = self._owner(scope, recv_root) if recv_root else None
            is_self = owner is not None and recv_root == owner.self_name and not self._is_local(scope, recv_root)
            if is_self:
                target = self.method(m)
                if target is not None and depth < self.max_depth:
                    return self._inline(None, target.node, c, scope, mode, depth, seen, comp_env,
                                        self_name=target.params()[0] if target.params() else None, qual=target.qualname)
                return {("call", "self." + m)}
            if m in STR_PASS:
                out = L(fn.value)
                if m in REWRITERS:
                    self.rewrites.append((c, m, (scope, fn.value, dict(comp_env))))
                if m == "format":
                    for a in c.args:
                        out |= L(a)
                    for k in c.keywords:
                        out |= L(k.value)
                if m == "replace" and len(c.args) == 2:
                    out |= L(c.args[1])
                return out
            if m in ("index", "count", "find"):
                return {("num",)}
            out = {("call", name or ("." + m))}
            out |= L(fn.value)
            for a in list(c.args) + [k.value for k in c.keywords]:
                out |= L(a)
            return out
        out = {("call", unparse(fn)[:40])}
        for a in list(c.args) + [k.value for k in c.keywords]:
            out |= L(a)
        return out

    def _scopes(self, scope):
        s = scope
        while s is not None:
            yield s
            s = s.parent

    def _inline(self, holder: Scope, fnode, call: ast.Call, caller: Scope, mode, depth, seen, comp_env, self_name, qual, module=None):
        a = fnode.args
        pos = [x.arg for x in a.posonlyargs + a.args]
        if self_name is not None and pos and pos[0] == self_name:
            pos = pos[1:]
        bindings: Dict[str, Tuple[Scope, ast.AST]] = {}
        # freeze comprehension variables of the caller by wrapping: evaluate argument leaves eagerly through a proxy scope
        proxy = _ProxyScope(caller, comp_env)
        for p, arg in zip(pos, call.args):
            bindings[p] = (proxy, arg)
        for kw in call.keywords:
            if kw.arg:
                bindings[kw.arg] = (proxy, kw.value)
        sc = Scope(fnode, parent=holder, bindings=bindings, qual=qual, self_name=self_name, module=module or caller.module)
        out: Set[Leaf] = set()
        for r in _returns(fnode):
            out |= self.leaves(sc, r, mode, depth + 1, seen, {})
        return out


class _ProxyScope(Scope):
    """a caller scope together with the comprehension environment active at the call"""

    def __init__(self, inner: Scope, comp_env):
        self.__dict__.update(inner.__dict__)
        self._inner = inner
        self._comp_env = comp_env


_orig_leaves = Slicer.leaves


def _leaves_with_proxy(self, scope, e, mode="val", depth=0, seen=None, comp_env=None):
    if isinstance(scope, _ProxyScope):
        env = dict(scope._comp_env or {})
        env.update(comp_env or {})
        return _orig_leaves(self, scope._inner, e, mode, depth, seen, env)
    return _orig_leaves(self, scope, e, mode, depth, seen, comp_env)


Slicer.leaves = _leaves_with_proxy


def _returns(fnode) -> List[ast.AST]:
    if isinstance(fnode, ast.Lambda):
        return [fnode.body]
    out = []

    def walk(n):
        for ch in ast.iter_child_nodes(n):
            if isinstance(ch, (ast.FunctionDef, ast.AsyncFunctionDef, ast.Lambda, ast.ClassDef)):
                continue
            if isinstance(ch, ast.Return) and ch.value is not None:
                out.append(ch.value)
            walk(ch)
    walk(fnode)
    return out


def fresh_leaves(slicer: Slicer, ctx) -> Set[Leaf]:
    """leaves of a rewrite target, computed with a fresh visited set (self-referential list rebuilds)"""
    scope, expr, env = ctx
    n = len(slicer.rewrites)
    out = slicer.leaves(scope, expr, "val", 0, set(), env)
    del slicer.rewrites[n:]
    return out


def returns_of(fnode):
    return _returns(fnode)


def show(l: Leaf) -> str:
    return ":".join(str(x) for x in l)
