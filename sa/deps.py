"""E4 dependency (def-use) closure: flow-sensitive may-dependence of every variable on *roots*.

Roots are: parameters (`x`), attribute paths on parameters (`self.ops`, `op.partition_by`,
`source.column_names`), module/global names (`g:name`), and calls (`call:name`).  The analysis is a
forward dataflow on the statement CFG (join = union, strong update for plain names, weak update for
mutating calls / subscript stores / known out-parameter calls).

On top of it: `guard_roots(node)` = union of the roots of all branch conditions guarding a node.
"""
from __future__ import annotations

import ast
from typing import Dict, FrozenSet, Iterable, List, Optional, Set

from .cfg import CFG, Node
from .index import dotted_name

MUTATORS = {
    "update", "add", "append", "extend", "insert", "setdefault", "intersection_update",
    "difference_update", "symmetric_difference_update", "remove", "discard", "pop", "clear", "sort",
}
# methods that write into a collection passed as their argument (out-parameters used by the repo)
OUT_PARAM_CALLS = {"get_column_names", "get_method_names", "get_method_uses_"}

State = Dict[str, FrozenSet[str]]
EMPTY: FrozenSet[str] = frozenset()


class Deps:
    def __init__(self, cfg: CFG, params: Iterable[str], out_param_calls: Optional[Set[str]] = None,
                 control: bool = False, named_locals: Optional[Set[str]] = None):
        """control=True adds control dependence: a value assigned under a branch also depends on the roots of
        the enclosing branch conditions (needed when a flag is set inside `if len(x) > 0:`)."""
        self.control = control
        # locals that also count as roots of their own (e.g. an object returned by a call whose fields matter)
        self.named_locals = named_locals or set()
        self.cfg = cfg
        self.params = list(params)
        self.out_param_calls = OUT_PARAM_CALLS if out_param_calls is None else out_param_calls
        self.state_in: Dict[int, State] = {}
        self._solve()

    # ---------- expression roots ----------
    def roots(self, expr: Optional[ast.AST], st: State) -> FrozenSet[str]:
        if expr is None:
            return EMPTY
        if isinstance(expr, ast.Constant):
            return EMPTY
        if isinstance(expr, ast.Name):
            if expr.id in st:
                if expr.id in self.named_locals:
                    return st[expr.id] | {expr.id}
                return st[expr.id]
            return frozenset({"g:" + expr.id})
        if isinstance(expr, ast.Attribute):
            base = self.roots(expr.value, st)
            out = set(base)
            for r in base:
                if not r.startswith(("call:", "g:")) and r.count(".") < 3:
                    out.add(r + "." + expr.attr)
            d = dotted_name(expr)
            if d and d.split(".")[0] not in st:
                out.add("g:" + d)
            if d and ("@" + d) in st:
                # a field stored earlier in this function: its dependencies are those of the stored value
                return frozenset(st["@" + d] | {d})
            return frozenset(out)
        if isinstance(expr, ast.Subscript):
            return self.roots(expr.value, st) | self.roots(expr.slice, st)
        if isinstance(expr, ast.Call):
            out = set()
            fn = expr.func
            if isinstance(fn, ast.Attribute):
                out |= self.roots(fn.value, st)
                out.add("call:" + fn.attr)
            elif isinstance(fn, ast.Name):
                out.add("call:" + fn.id)
                if fn.id in st:
                    out |= st[fn.id]
            else:
                out |= self.roots(fn, st)
            for a in expr.args:
                out |= self.roots(a.value if isinstance(a, ast.Starred) else a, st)
            for k in expr.keywords:
                out |= self.roots(k.value, st)
            return frozenset(out)
        if isinstance(expr, (ast.ListComp, ast.SetComp, ast.GeneratorExp, ast.DictComp)):
            st2 = dict(st)
            out = set()
            for gen in expr.generators:
                it = self.roots(gen.iter, st2)
                for nm in _target_names(gen.target):
                    st2[nm] = it
                for c in gen.ifs:
                    out |= self.roots(c, st2)
                out |= it
            if isinstance(expr, ast.DictComp):
                out |= self.roots(expr.key, st2) | self.roots(expr.value, st2)
            else:
                out |= self.roots(expr.elt, st2)
            return frozenset(out)
        if isinstance(expr, ast.Lambda):
            st2 = dict(st)
            for a in expr.args.args + expr.args.kwonlyargs:
                st2[a.arg] = EMPTY
            return self.roots(expr.body, st2)
        if isinstance(expr, ast.NamedExpr):
            return self.roots(expr.value, st)
        out = set()
        for ch in ast.iter_child_nodes(expr):
            if isinstance(ch, (ast.expr_context, ast.operator, ast.unaryop, ast.boolop, ast.cmpop)):
                continue
            if isinstance(ch, ast.keyword):
                out |= self.roots(ch.value, st)
            elif isinstance(ch, ast.expr):
                out |= self.roots(ch, st)
            elif isinstance(ch, ast.comprehension):
                pass
        return frozenset(out)

    # ---------- transfer ----------
    def _assign(self, target: ast.AST, val: FrozenSet[str], st: State):
        if isinstance(target, ast.Name):
            st[target.id] = val
        elif isinstance(target, (ast.Tuple, ast.List)):
            for e in target.elts:
                self._assign(e.value if isinstance(e, ast.Starred) else e, val, st)
        elif isinstance(target, ast.Subscript):
            base = _base_name(target.value)
            if base is not None:
                st[base] = st.get(base, EMPTY) | val | self.roots(target.slice, st)
        elif isinstance(target, ast.Attribute):
            base = _base_name(target.value)
            if base is not None and base in st and base != "self":
                # weak update of the object, plus a pseudo-variable for the attribute path
                # (not for `self`: its fields are tracked individually through the pseudo-variables)
                st[base] = st[base] | val
            d = dotted_name(target)
            if d:
                st["@" + d] = val

    def _effects_of_calls(self, expr: ast.AST, st: State):
        for n in ast.walk(expr):
            if not isinstance(n, ast.Call):
                continue
            fn = n.func
            if isinstance(fn, ast.Attribute):
                if fn.attr in MUTATORS:
                    base = _base_name(fn.value)
                    if base is not None and base in st:
                        add = set()
                        for a in n.args:
                            add |= self.roots(a, st)
                        for k in n.keywords:
                            add |= self.roots(k.value, st)
                        st[base] = st[base] | frozenset(add)
                if fn.attr in self.out_param_calls:
                    recv = self.roots(fn.value, st) | {"call:" + fn.attr}
                    for a in n.args:
                        if isinstance(a, ast.Name) and a.id in st:
                            st[a.id] = st[a.id] | recv
                        elif isinstance(a, ast.Attribute):
                            d = dotted_name(a)
                            if d:
                                st["@" + d] = st.get("@" + d, EMPTY) | recv

    def transfer(self, node: Node, st_in: State) -> State:
        st = dict(st_in)
        s = node.stmt
        if node.kind in ("test",):
            self._effects_of_calls(node.cond, st)
            for n in ast.walk(node.cond):
                if isinstance(n, ast.NamedExpr):
                    self._assign(n.target, self.roots(n.value, st), st)
            return st
        if node.kind == "iter":
            it = self.roots(s.iter, st)
            self._effects_of_calls(s.iter, st)
            self._assign(s.target, it, st)
            return st
        if node.kind == "with":
            for item in s.items:
                r = self.roots(item.context_expr, st)
                if item.optional_vars is not None:
                    self._assign(item.optional_vars, r, st)
            return st
        if node.kind == "handler":
            if s.name:
                st[s.name] = EMPTY
            return st
        if s is None or node.kind in ("entry", "exit", "falloff", "try", "assertfail"):
            return st
        if isinstance(s, ast.Assign):
            val = self.roots(s.value, st)
            if self.control:
                for (b, _lab) in self.cfg.lexical_guards(node):
                    val = val | self.roots(b.cond, self.state_in.get(b.id, {}))
            self._effects_of_calls(s.value, st)
            for t in s.targets:
                self._assign(t, val, st)
        elif isinstance(s, ast.AnnAssign):
            if s.value is not None:
                val = self.roots(s.value, st)
                self._effects_of_calls(s.value, st)
                self._assign(s.target, val, st)
        elif isinstance(s, ast.AugAssign):
            val = self.roots(s.value, st) | self.roots(_as_load(s.target), st)
            self._effects_of_calls(s.value, st)
            self._assign(s.target, val, st)
        elif isinstance(s, ast.Delete):
            for t in s.targets:
                if isinstance(t, ast.Subscript):
                    base = _base_name(t.value)
                    if base is not None:
                        st[base] = st.get(base, EMPTY) | self.roots(t.slice, st)
        elif isinstance(s, (ast.FunctionDef, ast.AsyncFunctionDef, ast.ClassDef)):
            st[s.name] = frozenset({"localdef:" + s.name})
        elif isinstance(s, (ast.Expr, ast.Return, ast.Raise)):
            v = getattr(s, "value", None) or getattr(s, "exc", None)
            if v is not None:
                self._effects_of_calls(v, st)
        elif isinstance(s, (ast.Import, ast.ImportFrom)):
            for al in s.names:
                nm = (al.asname or al.name).split(".")[0]
                st[nm] = frozenset({"g:" + nm})
        return st

    def _solve(self):
        cfg = self.cfg
        init: State = {}
        for p in self.params:
            init[p] = frozenset({p})
        self.state_in = {cfg.entry: init}
        out: Dict[int, State] = {}
        work = [cfg.entry]
        iters = 0
        while work:
            iters += 1
            if iters > 200000:
                break
            nid = work.pop()
            node = cfg.nodes[nid]
            st_out = self.transfer(node, self.state_in.get(nid, {}))
            if out.get(nid) == st_out and nid in out:
                continue
            out[nid] = st_out
            for (s, _) in node.succ:
                cur = self.state_in.get(s)
                if cur is None:
                    self.state_in[s] = dict(st_out)
                    work.append(s)
                else:
                    changed = False
                    for k, v in st_out.items():
                        old = cur.get(k)
                        if old is None:
                            cur[k] = v
                            changed = True
                        elif not v <= old:
                            cur[k] = old | v
                            changed = True
                    if changed:
                        work.append(s)
        self.state_out = out

    # ---------- queries ----------
    def roots_at(self, node: Node, expr: ast.AST) -> FrozenSet[str]:
        return self.roots(expr, self.state_in.get(node.id, {}))

    def cond_roots(self, node: Node) -> FrozenSet[str]:
        return self.roots(node.cond, self.state_in.get(node.id, {}))

    def guard_roots(self, node: Node) -> FrozenSet[str]:
        out: Set[str] = set()
        for (b, _label) in self.cfg.guards(node.id):
            out |= self.cond_roots(b)
        return frozenset(out)

    def own_guard_roots(self, node: Node) -> FrozenSet[str]:
        """roots of the lexically enclosing branch conditions only (not earlier early-exit guards)"""
        out: Set[str] = set()
        for (b, _label) in self.cfg.lexical_guards(node):
            out |= self.cond_roots(b)
        return frozenset(out)

    def var_at_exit(self, node: Node, name: str) -> FrozenSet[str]:
        return self.state_out.get(node.id, {}).get(name, EMPTY)


def _target_names(t: ast.AST) -> List[str]:
    return [n.id for n in ast.walk(t) if isinstance(n, ast.Name)]


def _base_name(e: ast.AST) -> Optional[str]:
    while isinstance(e, (ast.Attribute, ast.Subscript)):
        e = e.value
    return e.id if isinstance(e, ast.Name) else None


def _as_load(t: ast.AST) -> ast.AST:
    return t


def has_root(roots: Iterable[str], wanted: str) -> bool:
    """`wanted` matches a root equal to it or extending it by an attribute path (self.ops ~ self.ops.x)"""
    for r in roots:
        if r == wanted or r.startswith(wanted + "."):
            return True
    return False


def missing_roots(roots: Iterable[str], wanted: Iterable[str]) -> List[str]:
    roots = list(roots)
    return [w for w in wanted if not has_root(roots, w)]
