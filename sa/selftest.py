"""Checker self-test: single-edit variants of the current tree, analysed in scratch copies.

A variant is (id, property, file, old, new, expect) where `old` must occur exactly once in the file of the
*current* tree (anchor-relative edit, never a stored patch).  expect = 'detect' (the property's check must
report a new violation) or 'silent' (behaviour-preserving twin: must stay quiet).  The edited file must
still compile.  Scratch copies live under $TMPDIR and are removed.

usage: python -m sa.selftest [PROP ...] [--jobs N] [--list]
"""
from __future__ import annotations

import argparse
import concurrent.futures as cf
import importlib
import io
import json
import os
import shutil
import sys
import tempfile
import time
from contextlib import redirect_stdout

from . import index

VARIANTS_MODULE = "sa.variants"


def _run_one(args):
    vid, prop, rel, old, new, expect, repo = args
    src_pkg = os.path.join(repo, "data_algebra")
    path = os.path.join(src_pkg, rel)
    try:
        text = open(path, encoding="utf-8").read()
    except OSError:
        return vid, prop, expect, "stale", f"file {rel} missing"
    n = text.count(old)
    if n != 1:
        return vid, prop, expect, "stale", f"anchor occurs {n} times in {rel}"
    edited = text.replace(old, new)
    try:
        compile(edited, rel, "exec")
    except SyntaxError as e:
        return vid, prop, expect, "stale", f"edited file does not compile: {e}"
    tmp = tempfile.mkdtemp(prefix="sa_selftest_")
    try:
        dst = os.path.join(tmp, "data_algebra")
        shutil.copytree(src_pkg, dst, ignore=shutil.ignore_patterns("__pycache__"))
        with open(os.path.join(dst, rel), "w", encoding="utf-8") as fh:
            fh.write(edited)
        from . import report
        mod = importlib.import_module(f"sa.rules.{prop.lower()}")
        buf = io.StringIO()
        try:
            program = index.Program(tmp)
            res = report.Result(prop)
            with redirect_stdout(buf):
                mod.run(program, res, "quick")
            known = report.load_known()
            new_f = [f for f in res.findings if report.match_known(prop, f, known) is None]
            status = "violation" if new_f else "clean"
            detail = "; ".join(f"{f.rule} {f.where} [{f.construct}]" for f in new_f[:3])
        except index.AnalysisError as e:
            status = "analysis-error"
            detail = str(e)
        except Exception as e:  # analyser crash
            status = "analysis-error"
            detail = f"exception {type(e).__name__}: {e}"
        return vid, prop, expect, status, detail
    finally:
        shutil.rmtree(tmp, ignore_errors=True)


def run(props=None, jobs=16, repo=None, quiet=False):
    repo = repo or index.REPO
    vm = importlib.import_module(VARIANTS_MODULE)
    todo = [(v["id"], v["prop"], v["file"], v["old"], v["new"], v["expect"], repo)
            for v in vm.VARIANTS if (not props or v["prop"] in props)]
    t0 = time.time()
    results = []
    if jobs > 1 and len(todo) > 1:
        with cf.ProcessPoolExecutor(max_workers=jobs) as ex:
            results = list(ex.map(_run_one, todo))
    else:
        results = [_run_one(t) for t in todo]
    summary = {"variants": len(results), "detected": 0, "silent_ok": 0, "missed": [], "false_alarm": [],
               "stale": [], "analysis_error": [], "wall_s": 0.0}
    for (vid, prop, expect, status, detail) in results:
        if status == "stale":
            summary["stale"].append({"id": vid, "why": detail})
        elif status == "analysis-error":
            summary["analysis_error"].append({"id": vid, "why": detail})
        elif expect == "detect":
            if status == "violation":
                summary["detected"] += 1
            else:
                summary["missed"].append(vid)
        else:
            if status == "clean":
                summary["silent_ok"] += 1
            else:
                summary["false_alarm"].append({"id": vid, "why": detail})
        if not quiet:
            print(f"  {vid:55s} expect={expect:7s} -> {status:14s} {detail[:110]}")
    summary["wall_s"] = round(time.time() - t0, 2)
    return summary


def main():
    ap = argparse.ArgumentParser()
    ap.add_argument("props", nargs="*")
    ap.add_argument("--jobs", type=int, default=16)
    ap.add_argument("--repo", default=None)
    args = ap.parse_args()
    s = run([p.upper() for p in args.props], args.jobs, args.repo)
    print(json.dumps({k: v for k, v in s.items()}, indent=1))
    bad = s["missed"] or s["false_alarm"] or s["analysis_error"]
    return 1 if bad else 0


if __name__ == "__main__":
    sys.exit(main())
