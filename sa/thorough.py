"""Thorough tier: the quick verdict plus (1) wider scopes inside the rule modules (all SQL dialects, deeper inlining),
(2) a whole-package sweep of cross-property lints that are cheap but not needed on every change, and (3) a regression of
the checker itself: every single-edit variant of this property (sa/variants.py) and every seeded change filed for it
(/verif/seeded) is re-analysed in a scratch copy of the *current* tree.  (3) is informational: it is recorded in the
evidence (and printed as SELFTEST lines) but never changes the exit code — a stale anchor after an unrelated edit of the
repository must not turn into an alarm about the property."""
from __future__ import annotations

import json
import os


def selftest_summary(prop: str, repo: str):
    from . import selftest
    try:
        s = selftest.run([prop], jobs=16, repo=repo, quiet=True)
    except Exception as e:  # the regression harness must never break the check
        return {"error": f"{type(e).__name__}: {e}"}
    return s


def seeded_summary(prop: str, repo: str):
    """re-run this property's rules on each seeded change whose target is this property (scratch copy of the current tree)"""
    import importlib
    import io
    import shutil
    import subprocess
    import tempfile
    from contextlib import redirect_stdout
    from . import index, report
    root = os.path.join(os.path.dirname(os.path.dirname(os.path.abspath(__file__))), "seeded")
    out = []
    if not os.path.isdir(root):
        return out
    for name in sorted(os.listdir(root)):
        mp = os.path.join(root, name, "meta.json")
        pp = os.path.join(root, name, "patch.diff")
        if not (os.path.exists(mp) and os.path.exists(pp)):
            continue
        meta = json.load(open(mp))
        if meta.get("property") != prop and prop not in (meta.get("caught_by_at_filing") or []):
            continue
        tmp = tempfile.mkdtemp(prefix="sa_seed_")
        try:
            shutil.copytree(os.path.join(repo, "data_algebra"), os.path.join(tmp, "data_algebra"), ignore=shutil.ignore_patterns("__pycache__"))
            subprocess.run(["git", "init", "-q", tmp], capture_output=True)
            r = subprocess.run(["git", "-C", tmp, "apply", pp], capture_output=True, text=True)
            if r.returncode != 0:
                out.append({"seed": name, "status": "patch no longer applies to the current tree"})
                continue
            mod = importlib.import_module(f"sa.rules.{prop.lower()}")
            res = report.Result(prop)
            try:
                with redirect_stdout(io.StringIO()):
                    mod.run(index.Program(tmp), res, "quick")
                known = report.load_known()
                new = [f for f in res.findings if report.match_known(prop, f, known) is None]
                out.append({"seed": name, "target": meta.get("property"), "status": "caught" if new else "not caught",
                            "by": [f"{f.rule} {f.where} [{f.construct}]"[:140] for f in new[:3]]})
            except index.AnalysisError as e:
                out.append({"seed": name, "status": f"analysis-error: {e}"[:160]})
        finally:
            shutil.rmtree(tmp, ignore_errors=True)
    return out


def extend(program, res, prop: str, repo: str):
    st = selftest_summary(prop, repo)
    res.extra["self_test_variants"] = {k: st.get(k) for k in ("variants", "detected", "silent_ok", "missed", "false_alarm", "stale", "analysis_error", "error") if k in st}
    sd = seeded_summary(prop, repo)
    res.extra["seeded_changes"] = sd
    n_bad = len(st.get("missed", [])) + len(st.get("false_alarm", [])) + len(st.get("analysis_error", []))
    print(f"SELFTEST property={prop} variants={st.get('variants')} detected={st.get('detected')} silent_ok={st.get('silent_ok')} "
          f"problems={n_bad} stale={len(st.get('stale', []))} seeded={len(sd)} seeded_caught={sum(1 for x in sd if x['status'] == 'caught')}")
    for x in st.get("missed", []):
        print(f"SELFTEST-NOTE property={prop} variant {x} is no longer detected")
    for x in st.get("false_alarm", []):
        print(f"SELFTEST-NOTE property={prop} twin {x['id']} now alarms: {x['why'][:120]}")
