"""Tiny SQL expression parser and three-valued evaluator over the finite domain {NULL, numbers}.

Interprets only: CASE [operand] WHEN .. THEN .. [ELSE ..] END, AND/OR/NOT, comparisons, IS [NOT] NULL,
COALESCE, parentheses, placeholders, numeric constants, unary minus, TRUE/FALSE.  Anything else raises
Opaque: the calling rule then abstains for that template.  It interprets SQL text extracted from the source;
no repository code runs.

For arithmetic templates (value tables of `%` and `//`) it also knows `%`, string constants, typeof() and FLOOR(), with SQLite's arithmetic:
`/` and `%` between two integers are the truncating quotient and remainder (sign of the dividend), a zero divisor gives NULL, a comparison in
a numeric position counts 1 / 0.  Python ints stand for INTEGER values, floats for REAL.
"""
from __future__ import annotations

import re
from typing import Any, Dict, List, Optional, Tuple

TOKEN = re.compile(r"\s*(>=|<=|<>|!=|=|<|>|\(|\)|,|-|\+|\*|/|%|'[^']*'|[A-Za-z_][A-Za-z_0-9]*|\d+(?:\.\d+)?)")
# functions with a fixed arithmetic meaning the evaluator knows (SQLite semantics; FLOOR as registered by the library)
FUNCTIONS = {"TYPEOF", "FLOOR"}
# MOD(a, b) of PostgreSQL / MySQL / Spark / BigQuery: the truncating remainder, sign of the dividend (their documentation), exact on integers
FUNCTIONS2 = {"MOD"}
KEYWORDS = {"CASE", "WHEN", "THEN", "ELSE", "END", "AND", "OR", "NOT", "IS", "NULL", "TRUE", "FALSE", "COALESCE"}


class Opaque(Exception):
    pass


def tokenize(s: str) -> List[str]:
    out = []
    pos = 0
    s = s.strip()
    while pos < len(s):
        m = TOKEN.match(s, pos)
        if not m:
            raise Opaque(f"cannot tokenize at {s[pos:pos + 20]!r}")
        out.append(m.group(1))
        pos = m.end()
    return out


class Parser:
    def __init__(self, toks: List[str]):
        self.t = toks
        self.i = 0

    def peek(self) -> Optional[str]:
        return self.t[self.i] if self.i < len(self.t) else None

    def up(self) -> Optional[str]:
        p = self.peek()
        return p.upper() if p is not None else None

    def eat(self, want: Optional[str] = None) -> str:
        p = self.peek()
        if p is None or (want is not None and p.upper() != want):
            raise Opaque(f"expected {want}, got {p}")
        self.i += 1
        return p

    def parse(self):
        e = self.expr()
        if self.peek() is not None:
            raise Opaque(f"trailing tokens from {self.peek()}")
        return e

    def expr(self):
        left = self.and_expr()
        while self.up() == "OR":
            self.eat()
            left = ("or", left, self.and_expr())
        return left

    def and_expr(self):
        left = self.not_expr()
        while self.up() == "AND":
            self.eat()
            left = ("and", left, self.not_expr())
        return left

    def not_expr(self):
        if self.up() == "NOT":
            self.eat()
            return ("not", self.not_expr())
        return self.cmp()

    def cmp(self):
        left = self.add()
        p = self.up()
        if p in (">=", "<=", "<>", "!=", "=", "<", ">"):
            op = self.eat()
            return ("cmp", op, left, self.add())
        if p == "IS":
            self.eat()
            neg = False
            if self.up() == "NOT":
                self.eat()
                neg = True
            self.eat("NULL")
            return ("isnull", left, neg)
        return left

    def add(self):
        left = self.mul()
        while self.peek() in ("+", "-"):
            op = self.eat()
            left = ("arith", op, left, self.mul())
        return left

    def mul(self):
        left = self.primary()
        while self.peek() in ("*", "/", "%"):
            op = self.eat()
            left = ("arith", op, left, self.primary())
        return left

    def primary(self):
        p = self.peek()
        u = self.up()
        if p is None:
            raise Opaque("unexpected end")
        if p == "(":
            self.eat()
            e = self.expr()
            self.eat(")")
            return e
        if p == "-":
            self.eat()
            return ("neg", self.primary())
        if u == "CASE":
            self.eat()
            operand = None
            if self.up() != "WHEN":
                operand = self.expr()
            whens = []
            while self.up() == "WHEN":
                self.eat()
                c = self.expr()
                self.eat("THEN")
                v = self.expr()
                whens.append((c, v))
            els = ("null",)
            if self.up() == "ELSE":
                self.eat()
                els = self.expr()
            self.eat("END")
            return ("case", operand, whens, els)
        if u == "COALESCE":
            self.eat()
            self.eat("(")
            args = [self.expr()]
            while self.peek() == ",":
                self.eat()
                args.append(self.expr())
            self.eat(")")
            return ("coalesce", args)
        if u == "NULL":
            self.eat()
            return ("null",)
        if u in ("TRUE", "FALSE"):
            self.eat()
            return ("bool", u == "TRUE")
        if re.fullmatch(r"\d+(?:\.\d+)?", p):
            self.eat()
            return ("num", float(p) if "." in p else int(p))
        if p.startswith("'") and p.endswith("'") and len(p) >= 2:
            self.eat()
            return ("str", p[1:-1])
        if re.fullmatch(r"[A-Za-z_][A-Za-z_0-9]*", p):
            self.eat()
            if self.peek() == "(":
                if u in FUNCTIONS:
                    self.eat("(")
                    a = self.expr()
                    self.eat(")")
                    return ("fn", u, a)
                if u in FUNCTIONS2:
                    self.eat("(")
                    a = self.expr()
                    self.eat(",")
                    b = self.expr()
                    self.eat(")")
                    return ("fn2", u, a, b)
                raise Opaque(f"function {p}")
            if u in KEYWORDS:
                raise Opaque(f"keyword {p} in value position")
            return ("var", p)
        raise Opaque(f"token {p}")


def parse(text: str):
    return Parser(tokenize(text)).parse()


def ev(e, env: Dict[str, Any]):
    """values: None (NULL), numbers, booleans; truth: True / False / None (unknown)"""
    k = e[0]
    if k == "null":
        return None
    if k == "num":
        return e[1]
    if k == "bool":
        return e[1]
    if k == "var":
        if e[1] not in env:
            raise Opaque(f"free identifier {e[1]}")
        return env[e[1]]
    if k == "neg":
        v = ev(e[1], env)
        return None if v is None else -v
    if k == "str":
        return e[1]
    if k == "fn":
        v = ev(e[2], env)
        if e[1] == "TYPEOF":
            return "null" if v is None else ("integer" if isinstance(v, int) and not isinstance(v, bool) else ("real" if isinstance(v, float) else "text"))
        if e[1] == "FLOOR":
            import math
            if v is None:
                return None
            return math.floor(v) if isinstance(v, int) else float(math.floor(v))
        raise Opaque(f"function {e[1]}")
    if k == "fn2":
        a, b = ev(e[2], env), ev(e[3], env)
        if a is None or b is None:
            return None
        if e[1] == "MOD":
            import math
            if b == 0:
                return None
            if env.get("__MOD_FLOORED__"):
                return a % b  # Polars' SQL: MOD is the floored modulo already
            if isinstance(a, int) and isinstance(b, int):
                r = abs(a) % abs(b)
                return r if a >= 0 else -r
            return math.fmod(a, b)
        raise Opaque(f"function {e[1]}")
    if k == "arith":
        a, b = ev(e[2], env), ev(e[3], env)
        if a is None or b is None:
            return None
        if isinstance(a, bool):
            a = int(a)
        if isinstance(b, bool):
            b = int(b)
        op = e[1]

        def i64(v):
            # SQLite: an integer result outside the 64 bit range is computed in REAL instead
            if isinstance(v, int) and not (-2 ** 63 <= v < 2 ** 63):
                return float(v)
            return v

        try:
            if op == "+":
                return i64(a + b)
            if op == "-":
                return i64(a - b)
            if op == "*":
                return i64(a * b)
            if op == "/":
                if b == 0:
                    return None
                if isinstance(a, int) and isinstance(b, int):
                    q = abs(a) // abs(b)
                    return q if (a >= 0) == (b >= 0) else -q  # SQLite: integer division truncates towards zero
                return a / b
            if op == "%":
                ia, ib = int(a), int(b)  # SQLite casts both operands to INTEGER (a REAL beyond the range goes to the nearest end of it)
                ia = max(-2 ** 63, min(2 ** 63 - 1, ia))
                ib = max(-2 ** 63, min(2 ** 63 - 1, ib))
                if ib == 0:
                    return None
                r = abs(ia) % abs(ib)
                return r if ia >= 0 else -r  # sign of the dividend
        except Exception:
            raise Opaque("arithmetic")
        raise Opaque(f"operator {op}")
    if k == "cmp":
        a, b = ev(e[2], env), ev(e[3], env)
        if a is None or b is None:
            return None
        op = e[1]
        return {">=": a >= b, "<=": a <= b, "<>": a != b, "!=": a != b, "=": a == b, "<": a < b, ">": a > b}[op]
    if k == "isnull":
        v = ev(e[1], env)
        r = v is None
        return (not r) if e[2] else r
    if k == "not":
        v = ev(e[1], env)
        return None if v is None else (not v)
    if k == "and":
        a, b = ev(e[1], env), ev(e[2], env)
        if a is False or b is False:
            return False
        if a is None or b is None:
            return None
        return True
    if k == "or":
        a, b = ev(e[1], env), ev(e[2], env)
        if a is True or b is True:
            return True
        if a is None or b is None:
            return None
        return False
    if k == "coalesce":
        for a in e[1]:
            v = ev(a, env)
            if v is not None:
                return v
        return None
    if k == "case":
        operand, whens, els = e[1], e[2], e[3]
        for (c, v) in whens:
            if operand is not None:
                o = ev(operand, env)
                cv = ev(c, env)
                t = None if (o is None or cv is None) else (o == cv)
            else:
                t = ev(c, env)
            if t is True:
                return ev(v, env)
        return ev(els, env)
    raise Opaque(f"node {k}")
