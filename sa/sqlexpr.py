"""E5/E6: tables of the SQL expression translator and string-template folding of formatter functions.

Everything is extracted from the source (dict literals, constructor edits, function bodies); the lookup order
of SQLModel.expr_to_sql is *modelled* here and the model is tied to the code by `confirm_lookup_model`, which
checks the shape of expr_to_sql and raises AnalysisError if it no longer matches.
"""
from __future__ import annotations

import ast
from typing import Any, Dict, List, Optional, Tuple

from .index import AnalysisError, ClassInfo, FuncInfo, ModuleInfo, Program, dotted_name, unparse

DIALECTS = [("SQLite", "SQLiteModel"), ("PostgreSQL", "PostgreSQLModel"), ("MySQL", "MySQLModel"),
            ("BigQuery", "BigQueryModel"), ("SparkSQL", "SparkSQLModel"), ("PolarsSQL", "PolarsSQLModel")]


def dict_literal_functions(mod: ModuleInfo, name: str) -> Dict[str, ast.AST]:
    """module-level `name = {const: <expr>, ...}` plus later `name[const] = <expr>` edits"""
    node = mod.consts.get(name)
    if node is None or not isinstance(node, ast.Dict):
        raise AnalysisError(f"anchor vanished: dict literal {mod.name}.{name}")
    out: Dict[str, ast.AST] = {}
    for k, v in zip(node.keys, node.values):
        if not (isinstance(k, ast.Constant) and isinstance(k.value, str)):
            raise AnalysisError(f"{mod.name}.{name}: non-constant key")
        out[k.value] = v
    for st in mod.toplevel:
        if isinstance(st, ast.Assign) and len(st.targets) == 1 and isinstance(st.targets[0], ast.Subscript) \
                and unparse(st.targets[0].value) == name and isinstance(st.targets[0].slice, ast.Constant):
            out[st.targets[0].slice.value] = st.value
    return out


class Dialect:
    def __init__(self, program: Program, module: str, clsname: str):
        self.program = program
        self.module = program.module(module)
        self.cls = program.cls(module, clsname)
        self.name = clsname
        self.ctor_kwargs: Dict[str, ast.AST] = {}
        self.formatters: Dict[str, Tuple[ModuleInfo, ast.AST]] = {}
        self.op_replacements: Dict[str, str] = {}
        self._load()

    def _load(self):
        base_mod = self.program.module("sql_model")
        default_fmt = dict_literal_functions(base_mod, "db_expr_formatters")
        default_repl_node = base_mod.consts.get("db_default_op_replacements")
        if not isinstance(default_repl_node, ast.Dict):
            raise AnalysisError("anchor vanished: sql_model.db_default_op_replacements")
        default_repl = {k.value: v.value for k, v in zip(default_repl_node.keys, default_repl_node.values)
                        if isinstance(k, ast.Constant) and isinstance(v, ast.Constant)}
        init = self.cls.methods.get("__init__")
        if init is None:
            raise AnalysisError(f"{self.name} has no __init__")
        base_call = None
        for c in ast.walk(init.node):
            if isinstance(c, ast.Call) and (dotted_name(c.func) or "").endswith(".__init__") and c.args \
                    and isinstance(c.args[0], ast.Name) and c.args[0].id == "self":
                if any(kw.arg in ("sql_formatters", "identifier_quote", "string_quote") for kw in c.keywords):
                    base_call = c
        if base_call is None:
            raise AnalysisError(f"{self.name}.__init__: base constructor call with dialect configuration not found")
        self.ctor_kwargs = {kw.arg: kw.value for kw in base_call.keywords if kw.arg}
        # formatters
        own: Dict[str, ast.AST] = {}
        sf = self.ctor_kwargs.get("sql_formatters")
        if sf is not None:
            if isinstance(sf, ast.Name) and sf.id in self.module.consts:
                own = dict_literal_functions(self.module, sf.id)
            else:
                raise AnalysisError(f"{self.name}: sql_formatters is not a module-level dict")
        for k, v in default_fmt.items():
            self.formatters[k] = (base_mod, v)
        for k, v in own.items():
            self.formatters[k] = (self.module, v)
        # op replacements: local copy of the defaults plus constant edits, or the defaults
        repl = dict(default_repl)
        orp = self.ctor_kwargs.get("op_replacements")
        if orp is not None:
            if not isinstance(orp, ast.Name):
                raise AnalysisError(f"{self.name}: op_replacements is not a local variable")
            seen_copy = False
            for st in ast.walk(init.node):
                if isinstance(st, ast.Assign) and len(st.targets) == 1:
                    t = st.targets[0]
                    if isinstance(t, ast.Name) and t.id == orp.id:
                        if "db_default_op_replacements" in unparse(st.value):
                            seen_copy = True
                        elif isinstance(st.value, ast.Dict):
                            repl = {k.value: v.value for k, v in zip(st.value.keys, st.value.values)}
                            seen_copy = True
                    if isinstance(t, ast.Subscript) and isinstance(t.value, ast.Name) and t.value.id == orp.id \
                            and isinstance(t.slice, ast.Constant) and isinstance(st.value, ast.Constant):
                        repl[t.slice.value] = st.value.value
            if not seen_copy:
                raise AnalysisError(f"{self.name}: op_replacements does not start from the default table")
        self.op_replacements = repl

    def const_kwarg(self, name: str, default=None):
        v = self.ctor_kwargs.get(name)
        if v is None:
            # default of SQLModel.__init__
            init = self.program.method("sql_model", "SQLModel", "__init__", inherited=False)
            a = init.node.args
            for p, dflt in zip(a.kwonlyargs, a.kw_defaults):
                if p.arg == name and isinstance(dflt, ast.Constant):
                    return dflt.value
            return default
        if isinstance(v, ast.Constant):
            return v.value
        return default

    def resolve(self, op: str) -> Tuple[str, Any]:
        """('formatter', (module, node)) | ('default', OPNAME)"""
        r = self.op_replacements
        op2 = r.get(op) or r.get(op.lower()) or r.get(op.upper()) or op
        f = self.formatters
        for k in (op2, op2.lower(), op2.upper()):
            if k in f:
                return ("formatter", f[k])
        return ("default", op2.upper())

    def formatter_func(self, entry) -> Optional[ast.FunctionDef]:
        mod, node = entry
        if isinstance(node, ast.Name) and node.id in mod.functions:
            fn = mod.functions[node.id].node
            # text helpers of the same module are inlined when the template is folded
            fn._sa_helpers = {k: f.node for k, f in mod.functions.items()}
            return fn
        if isinstance(node, ast.Lambda):
            return node
        if isinstance(node, ast.Attribute):
            f = self.program.resolve_function_expr(mod, node)
            if f is not None:
                return f.node
        return None


def confirm_lookup_model(program: Program):
    """expr_to_sql: replacements (exact, lower, upper) -> formatters (exact, lower, upper) -> inline n-ary -> OP(args)"""
    f = program.method("sql_model", "SQLModel", "expr_to_sql", inherited=False)
    from . import pat
    needles = ["_OP in self.op_replacements.keys()", "_OP.lower() in self.op_replacements.keys()",
               "_OP.upper() in self.op_replacements.keys()", "_OP in self.sql_formatters.keys()",
               "_OP.lower() in self.sql_formatters.keys()", "_OP.upper() in self.sql_formatters.keys()",
               "expression.inline", "_OP.upper() + '(' + ', '.join(_SUBS) + ')'"]
    pos = (-1, -1)
    opvar = None
    for n in needles:
        hits = pat.find(n, f.node)
        if opvar is not None:
            hits = [(nd, e) for (nd, e) in hits if e.get("_OP", opvar) == opvar]
        hits = sorted(hits, key=lambda h: (h[0].lineno, h[0].col_offset))
        hits = [h for h in hits if (h[0].lineno, h[0].col_offset) >= pos]
        if not hits:
            raise AnalysisError(f"expr_to_sql no longer matches the modelled lookup order (at `{n}`)")
        nd, e = hits[0]
        opvar = e.get("_OP", opvar)
        pos = (nd.lineno, nd.col_offset)
    if opvar is None or not pat.find(f"{opvar} = expression.op", f.node):
        raise AnalysisError("expr_to_sql: the looked-up name is no longer bound from expression.op")
    init = program.method("sql_model", "SQLModel", "__init__", inherited=False)
    t2 = unparse(init.node)
    if "for k in db_expr_formatters.keys()" not in t2 or "if k not in self.sql_formatters.keys()" not in t2:
        raise AnalysisError("SQLModel.__init__ no longer layers dialect formatters over db_expr_formatters as modelled")
    return f


# ---------------------------------------------------------------------------------------------- template folding
Piece = Tuple[str, Any]  # ('lit', text) | ('arg', index) | ('opaque', source)


class ArgPiece(tuple):
    """('arg', index) that remembers how the operand is rendered: parens = the constant handed over as want_inline_parens (None: not a constant)"""
    parens = False
    node = None


def fold_function(fn: ast.AST) -> List[List[Piece]]:
    """one folded template per return statement of a formatter function"""
    if isinstance(fn, ast.Lambda):
        return [fold_expr(fn.body, {}, _params(fn))]
    env: Dict[str, ast.AST] = {}
    multi = set()
    for st in ast.walk(fn):
        if isinstance(st, ast.Assign) and len(st.targets) == 1 and isinstance(st.targets[0], ast.Name):
            nm = st.targets[0].id
            if nm in env:
                multi.add(nm)
            env[nm] = st.value
    for nm in multi:
        env.pop(nm, None)
    params = _params(fn)
    helpers = getattr(fn, "_sa_helpers", None)
    if helpers:
        env["__helpers__"] = helpers
    out = []
    for st in ast.walk(fn):
        if isinstance(st, ast.Return) and st.value is not None:
            out.append(fold_expr(st.value, env, params))
    return out


def _inline_helper(e: ast.Call, env, params, depth):
    """`helper(e0, e1)`: a module-level function of plain text arguments with one return — its template with the caller's pieces put in"""
    helpers = env.get("__helpers__") or {}
    if not (isinstance(e.func, ast.Name) and e.func.id in helpers) or e.keywords:
        return None
    h = helpers[e.func.id]
    hp = [a.arg for a in h.args.args]
    if len(hp) != len(e.args) or h.args.vararg or h.args.kwarg or h.args.kwonlyargs:
        return None
    rets = [st for st in ast.walk(h) if isinstance(st, ast.Return) and st.value is not None]
    if len(rets) != 1:
        return None
    body = [st for st in h.body if not (isinstance(st, ast.Expr) and isinstance(st.value, ast.Constant))]
    if len(body) != 1 or body[0] is not rets[0]:
        return None
    actual = {p: fold_expr(a, env, params, depth + 1) for p, a in zip(hp, e.args)}
    inner = fold_expr(rets[0].value, {"__helpers__": helpers}, [], depth + 1)
    out: List[Piece] = []
    for kind, val in inner:
        if kind == "opaque" and val in actual:
            out += actual[val]
        else:
            out.append((kind, val))
    return _merge(out)


def _params(fn) -> List[str]:
    a = fn.args
    return [x.arg for x in a.args]


def fold_expr(e: ast.AST, env: Dict[str, ast.AST], params: List[str], depth: int = 0) -> List[Piece]:
    if depth > 20:
        return [("opaque", unparse(e))]
    if isinstance(e, ast.Constant) and isinstance(e.value, str):
        return [("lit", e.value)]
    if isinstance(e, ast.BinOp) and isinstance(e.op, ast.Add):
        # flatten the (left-nested) '+' chain iteratively: long templates nest dozens of levels deep
        operands = []
        stack = [e]
        while stack:
            x = stack.pop()
            if isinstance(x, ast.BinOp) and isinstance(x.op, ast.Add):
                stack.append(x.right)
                stack.append(x.left)
            else:
                operands.append(x)
        out = []
        for x in operands:
            out += fold_expr(x, env, params, depth + 1)
        return _merge(out)
    if isinstance(e, ast.JoinedStr):
        out: List[Piece] = []
        for v in e.values:
            if isinstance(v, ast.Constant):
                out.append(("lit", str(v.value)))
            elif isinstance(v, ast.FormattedValue):
                out += fold_expr(v.value, env, params, depth + 1)
        return _merge(out)
    if isinstance(e, ast.Name) and e.id in env:
        return fold_expr(env[e.id], env, params, depth + 1)
    if isinstance(e, ast.Call):
        dn = dotted_name(e.func) or ""
        expr_param = params[1] if len(params) > 1 else "expression"
        model_param = params[0] if params else "dbmodel"
        if dn == f"{model_param}.expr_to_sql" and e.args:
            a = e.args[0]
            if isinstance(a, ast.Subscript) and unparse(a.value) == f"{expr_param}.args" and isinstance(a.slice, ast.Constant):
                piece = ArgPiece(("arg", a.slice.value))
                kw = {k.arg: k.value for k in e.keywords}.get("want_inline_parens")
                piece.parens = False if kw is None else (kw.value if isinstance(kw, ast.Constant) else None)
                piece.node = e
                return [piece]
        if dn == "str" and len(e.args) == 1:
            return fold_expr(e.args[0], env, params, depth + 1)
        inl = _inline_helper(e, env, params, depth)
        if inl is not None:
            return inl
    if isinstance(e, ast.UnaryOp) and isinstance(e.op, ast.USub):
        return [("opaque", unparse(e))]
    return [("opaque", unparse(e))]


def _merge(ps: List[Piece]) -> List[Piece]:
    out: List[Piece] = []
    for p in ps:
        if out and p[0] == "lit" and out[-1][0] == "lit":
            out[-1] = ("lit", out[-1][1] + p[1])
        else:
            out.append(p)
    return out


def render(ps: List[Piece], names=("X", "Y", "Z", "W")) -> str:
    out = ""
    for k, v in ps:
        if k == "lit":
            out += v
        elif k == "arg":
            out += names[v] if isinstance(v, int) and v < len(names) else f"A{v}"
        else:
            out += "⟨" + v + "⟩"
    return out


def catalog(program: Program) -> List[Dict[str, str]]:
    """rows of op_catalog.methods_table (a pd.DataFrame({...}) literal)"""
    mod = program.module("op_catalog")
    node = mod.consts.get("methods_table")
    if not (isinstance(node, ast.Call) and node.args and isinstance(node.args[0], ast.Dict)):
        raise AnalysisError("anchor vanished: op_catalog.methods_table = pd.DataFrame({...})")
    try:
        d = ast.literal_eval(node.args[0])
    except Exception as e:
        raise AnalysisError(f"op_catalog.methods_table is not a literal: {e}")
    n = len(d["op"])
    for k, v in d.items():
        if len(v) != n:
            raise AnalysisError(f"op_catalog.methods_table column {k} has {len(v)} rows, expected {n}")
    return [{k: d[k][i] for k in d} for i in range(n)]
