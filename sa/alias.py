"""E7 ownership / alias dataflow: which local names may alias a caller-owned object, and which in-place
effects reach one.

Forward may-alias analysis on the statement CFG.  A value carries a set of ownership tags:
  ('node', '<param>.<field>')   a mutable field of an operator node / expression handed to the function
  ('owned', '<source text>')    a caller-owned object (an input data frame, a stored cache entry, ...)
Tags propagate through plain assignment, conditional expressions and tuple unpacking; anything produced by a
*fresh producer* (copy constructors, comprehensions, arithmetic, method calls that return new objects, ...)
carries no tag.  Unknown expressions are treated as fresh: the analysis is a detector of definite aliases, it
never alarms on something it cannot follow.
"""
from __future__ import annotations

import ast
from typing import Callable, Dict, FrozenSet, Iterable, List, Optional, Set, Tuple

from .cfg import CFG, Node
from .index import dotted_name, unparse

Tag = Tuple[str, str]
State = Dict[str, FrozenSet[Tag]]
EMPTY: FrozenSet[Tag] = frozenset()

# calls that return their argument's object unchanged (aliases)
IDENTITY_CALLS: Set[str] = set()
# in-place mutators of lists / dicts / sets / frames
MUTATING_METHODS = {"append", "extend", "insert", "sort", "reverse", "remove", "pop", "clear", "update", "add", "discard",
                    "setdefault", "popitem", "intersection_update", "difference_update", "symmetric_difference_update",
                    "move_to_end", "drop_duplicates_inplace"}
INPLACE_KW_METHODS = {"drop", "rename", "reset_index", "sort_values", "fillna", "dropna", "set_index", "sort_index",
                      "replace", "drop_duplicates", "ffill", "bfill", "clip", "interpolate", "where", "mask", "query"}


class Effect:
    def __init__(self, node: Node, stmt: ast.AST, var: str, tags: FrozenSet[Tag], what: str):
        self.node = node
        self.stmt = stmt
        self.var = var
        self.tags = tags
        self.what = what


class Alias:
    def __init__(self, cfg: CFG, params: Iterable[str], source_of: Callable[[ast.AST], Optional[Tag]],
                 inplace_helpers: Optional[Set[str]] = None, param_tags: Optional[Dict[str, Tag]] = None):
        """source_of(expr) -> Tag if evaluating expr yields a caller-owned object (e.g. `op.partition_by`), else None
        inplace_helpers: method names (called as self.m(x) / m(x)) that mutate their first argument in place"""
        self.cfg = cfg
        self.params = list(params)
        self.source_of = source_of
        self.inplace_helpers = inplace_helpers or set()
        self.param_tags = param_tags or {}
        self.state_in: Dict[int, State] = {}
        self._solve()

    def tags(self, e: Optional[ast.AST], st: State) -> FrozenSet[Tag]:
        if e is None:
            return EMPTY
        t = self.source_of(e)
        if t is not None:
            return frozenset({t})
        if isinstance(e, ast.Name):
            return st.get(e.id, EMPTY)
        if isinstance(e, ast.IfExp):
            return self.tags(e.body, st) | self.tags(e.orelse, st)
        if isinstance(e, ast.BoolOp):
            out = EMPTY
            for v in e.values:
                out = out | self.tags(v, st)
            return out
        if isinstance(e, ast.NamedExpr):
            return self.tags(e.value, st)
        if isinstance(e, ast.Call):
            dn = dotted_name(e.func) or ""
            if dn in IDENTITY_CALLS and e.args:
                return self.tags(e.args[0], st)
        return EMPTY

    def _assign(self, target: ast.AST, val: FrozenSet[Tag], st: State, value_expr: Optional[ast.AST] = None):
        if isinstance(target, ast.Name):
            st[target.id] = val
        elif isinstance(target, (ast.Tuple, ast.List)):
            if isinstance(value_expr, (ast.Tuple, ast.List)) and len(value_expr.elts) == len(target.elts):
                for t, v in zip(target.elts, value_expr.elts):
                    self._assign(t, self.tags(v, st), st, v)
            else:
                for t in target.elts:
                    self._assign(t, EMPTY, st)

    def transfer(self, node: Node, st_in: State) -> State:
        st = dict(st_in)
        s = node.stmt
        if node.kind == "iter":
            # loop variables over an owned container alias its *elements*; elements are not tracked
            for nm in [n.id for n in ast.walk(s.target) if isinstance(n, ast.Name)]:
                st[nm] = EMPTY
            return st
        if node.kind != "stmt" or s is None:
            return st
        if isinstance(s, ast.Assign):
            val = self.tags(s.value, st)
            for t in s.targets:
                self._assign(t, val, st, s.value)
        elif isinstance(s, ast.AnnAssign) and s.value is not None:
            self._assign(s.target, self.tags(s.value, st), st, s.value)
        elif isinstance(s, ast.AugAssign):
            pass  # in place for mutable containers: the name keeps its tags
        return st

    def _solve(self):
        cfg = self.cfg
        self.state_in = {cfg.entry: {p: frozenset({t}) for p, t in self.param_tags.items()}}
        out: Dict[int, State] = {}
        work = [cfg.entry]
        it = 0
        while work:
            it += 1
            if it > 100000:
                break
            nid = work.pop()
            node = cfg.nodes[nid]
            st_out = self.transfer(node, self.state_in.get(nid, {}))
            if nid in out and out[nid] == st_out:
                continue
            out[nid] = st_out
            for (sx, _l) in node.succ:
                cur = self.state_in.get(sx)
                if cur is None:
                    self.state_in[sx] = dict(st_out)
                    work.append(sx)
                else:
                    ch = False
                    for k, v in st_out.items():
                        old = cur.get(k)
                        if old is None:
                            cur[k] = v
                            ch = True
                        elif not v <= old:
                            cur[k] = old | v
                            ch = True
                    if ch:
                        work.append(sx)

    # ---------------- effects ----------------
    def effects(self) -> List[Effect]:
        out: List[Effect] = []
        for node in self.cfg.stmt_nodes(("stmt", "test", "return", "iter", "with")):
            st = self.state_in.get(node.id, {})
            root = node.cond if node.kind in ("test", "iter") else node.stmt
            if root is None:
                continue

            def tagged(e) -> FrozenSet[Tag]:
                return self.tags(e, st)

            s = node.stmt
            if node.kind == "stmt":
                targets = []
                if isinstance(s, ast.Assign):
                    targets = s.targets
                elif isinstance(s, ast.AugAssign):
                    targets = [s.target]
                    tg = tagged(s.target) if isinstance(s.target, ast.Name) else EMPTY
                    if tg:
                        out.append(Effect(node, s, unparse(s.target), tg, f"augmented assignment `{unparse(s)[:60]}` mutates the object in place"))
                elif isinstance(s, ast.Delete):
                    targets = s.targets
                for t in targets:
                    # x[k] = v   x.loc[...] = v   x.attr = v   del x[k]
                    base = t
                    path = []
                    while isinstance(base, (ast.Subscript, ast.Attribute)):
                        path.append(base)
                        base = base.value
                    if path and isinstance(base, ast.Name):
                        # the object written is the one denoted by the expression below the outermost accessor
                        obj = path[0].value
                        # x.loc[...] = v writes into x
                        if isinstance(obj, ast.Attribute) and obj.attr in ("loc", "iloc", "at", "iat"):
                            obj = obj.value
                        tg = tagged(obj)
                        if tg:
                            kind = "attribute store" if isinstance(path[0], ast.Attribute) else "item store"
                            if isinstance(s, ast.Delete):
                                kind = "item deletion"
                            out.append(Effect(node, s, unparse(obj), tg, f"{kind} `{unparse(s)[:60]}`"))
            for c in ast.walk(root):
                if not isinstance(c, ast.Call):
                    continue
                fn = c.func
                if isinstance(fn, ast.Attribute):
                    tg = tagged(fn.value)
                    if tg and fn.attr in MUTATING_METHODS:
                        out.append(Effect(node, c, unparse(fn.value), tg, f"in-place method `{unparse(c)[:60]}`"))
                    if tg and fn.attr in INPLACE_KW_METHODS:
                        for kw in c.keywords:
                            if kw.arg == "inplace" and isinstance(kw.value, ast.Constant) and kw.value.value is True:
                                out.append(Effect(node, c, unparse(fn.value), tg, f"`{unparse(c)[:60]}` with inplace=True"))
                    if fn.attr in self.inplace_helpers and c.args:
                        tg2 = tagged(c.args[0])
                        if tg2:
                            out.append(Effect(node, c, unparse(c.args[0]), tg2, f"`{unparse(c)[:60]}` mutates its argument in place"))
                elif isinstance(fn, ast.Name) and fn.id in self.inplace_helpers and c.args:
                    tg2 = tagged(c.args[0])
                    if tg2:
                        out.append(Effect(node, c, unparse(c.args[0]), tg2, f"`{unparse(c)[:60]}` mutates its argument in place"))
        return out

    def returned_aliases(self) -> List[Tuple[Node, FrozenSet[Tag]]]:
        out = []
        for r in self.cfg.returns():
            if r.stmt.value is None:
                continue
            tg = self.tags(r.stmt.value, self.state_in.get(r.id, {}))
            if tg:
                out.append((r, tg))
        return out
