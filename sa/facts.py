"""E9 frozen external-contract tables (trusted base; one source per table).

These are facts about SQL dialects and third-party libraries that the repository's source cannot tell us.
"""

# SQLite built-in functions (https://www.sqlite.org/lang_corefunc.html, lang_aggfunc.html, windowfunctions.html,
# lang_datefunc.html) — math functions are NOT assumed (compile-time option); the repo registers its own.
SQLITE_BUILTINS = {
    "abs", "changes", "char", "coalesce", "format", "glob", "hex", "ifnull", "iif", "instr", "last_insert_rowid",
    "length", "like", "likelihood", "likely", "lower", "ltrim", "max", "min", "nullif", "printf", "quote", "random",
    "randomblob", "replace", "round", "rtrim", "sign", "soundex", "substr", "substring", "total_changes", "trim",
    "typeof", "unicode", "unlikely", "upper", "zeroblob",
    "avg", "count", "group_concat", "sum", "total",
    "row_number", "rank", "dense_rank", "percent_rank", "cume_dist", "ntile", "lag", "lead", "first_value",
    "last_value", "nth_value",
    "date", "time", "datetime", "julianday", "strftime", "unixepoch", "cast",
}

# PostgreSQL 16 built-in functions used by / near the catalogue (https://www.postgresql.org/docs/16/functions.html)
POSTGRESQL_BUILTINS = {
    "abs", "cbrt", "ceil", "ceiling", "degrees", "div", "exp", "factorial", "floor", "gcd", "lcm", "ln", "log", "log10",
    "mod", "pi", "power", "radians", "round", "scale", "sign", "sqrt", "trunc", "width_bucket", "random", "setseed",
    "acos", "asin", "atan", "atan2", "cos", "cot", "sin", "tan", "sinh", "cosh", "tanh", "asinh", "acosh", "atanh",
    "avg", "count", "max", "min", "sum", "stddev", "stddev_samp", "stddev_pop", "variance", "var_samp", "var_pop",
    "bool_and", "bool_or", "every", "string_agg", "array_agg",
    "row_number", "rank", "dense_rank", "percent_rank", "cume_dist", "ntile", "lag", "lead", "first_value",
    "last_value", "nth_value",
    "coalesce", "nullif", "greatest", "least", "cast", "concat", "length", "lower", "upper", "substring", "substr",
    "trim", "ltrim", "rtrim", "replace", "position", "to_char", "to_date", "to_timestamp", "date_part", "date_trunc",
    "extract", "age", "now", "date",
}

SQL_INLINE_OPERATORS = {"+", "-", "*", "/", "<", "<=", ">", ">=", "=", "!=", "<>", "AND", "OR", "%"}

# meaning vocabulary: catalogued method -> SQL spellings that mean it, per dialect (only where a wrong spelling
# would still be a valid function of that dialect)
MEANING = {
    "PostgreSQLModel": {
        "log": {"LN"},                      # LOG is base 10 in PostgreSQL
        "std": {"STDDEV_SAMP", "STDDEV"},   # sample, not population
        "var": {"VAR_SAMP", "VARIANCE"},
        "mean": {"AVG"},
        "exp": {"EXP"}, "sqrt": {"SQRT"}, "abs": {"ABS"}, "sign": {"SIGN"},
        "sin": {"SIN"}, "cos": {"COS"}, "sinh": {"SINH"}, "cosh": {"COSH"}, "tanh": {"TANH"}, "log10": {"LOG10", "LOG"},
        "max": {"MAX"}, "min": {"MIN"}, "sum": {"SUM"}, "cumsum": {"SUM"}, "cummax": {"MAX"}, "cummin": {"MIN"},
        "_row_number": {"ROW_NUMBER"}, "_uniform": {"RANDOM"},
    },
    "SQLiteModel": {
        "max": {"MAX"}, "min": {"MIN"}, "sum": {"SUM"}, "cumsum": {"SUM"}, "cummax": {"MAX"}, "cummin": {"MIN"},
        "_row_number": {"ROW_NUMBER"}, "mean": {"AVG"},
        # registered python functions keep their python names (math.log is the natural logarithm)
        "log": {"LOG"}, "exp": {"EXP"}, "sqrt": {"SQRT"}, "abs": {"ABS"}, "sign": {"SIGN"},
        "std": {"STD"}, "var": {"VAR"}, "median": {"MEDIAN"},
    },
}

# what the python callable registered under a SQLite name must be (name -> admissible python callables)
SQLITE_REGISTRATION_MEANING = {
    "log": {"math.log", "numpy.log"}, "log10": {"math.log10", "numpy.log10"}, "log1p": {"math.log1p", "numpy.log1p"},
    "exp": {"math.exp", "numpy.exp"}, "expm1": {"math.expm1", "numpy.expm1"}, "sqrt": {"math.sqrt", "numpy.sqrt"},
    "sin": {"math.sin", "numpy.sin"}, "cos": {"math.cos", "numpy.cos"}, "sinh": {"math.sinh", "numpy.sinh"},
    "cosh": {"math.cosh", "numpy.cosh"}, "tanh": {"math.tanh", "numpy.tanh"},
    "arccos": {"numpy.arccos"}, "arcsin": {"numpy.arcsin"}, "arctan": {"numpy.arctan"},
    "arccosh": {"numpy.arccosh"}, "arcsinh": {"numpy.arcsinh"}, "arctanh": {"numpy.arctanh"},
    "floor": {"math.floor", "numpy.floor"}, "ceil": {"math.ceil", "numpy.ceil"}, "ceiling": {"math.ceil", "numpy.ceil"},
    "round": {"numpy.round", "numpy.around", "round"},  # Python's one argument round() rounds halves to even as numpy does
}

# python functions that return an int for a float argument (numpy's counterparts keep the float type); registered raw as a SQLite
# function they turn a REAL column INTEGER
PYTHON_INT_VALUED_OF_FLOAT = {"math.floor", "math.ceil", "math.trunc"}

# numpy functions whose result is an ndarray even for Series arguments (numpy.where / numpy.char.* do not go through __array_ufunc__)
NUMPY_ARRAY_VALUED = {"numpy.where", "numpy.char.add", "numpy.asarray", "numpy.array", "numpy.isin"}

# pandas / numpy names the Pandas executor falls through to for catalogued methods that are not in impl_map
# (pandas 3.0.5 / numpy 2.5.3 in this sandbox; names verified once with dir() of the installed libraries)
NUMPY_ELEMENTWISE = {
    "abs", "arccos", "arccosh", "arcsin", "arcsinh", "arctan", "arctan2", "arctanh", "around", "ceil", "cos", "cosh", "exp",
    "expm1", "floor", "fmax", "fmin", "log", "log10", "log1p", "maximum", "minimum", "remainder", "mod", "round", "sign", "sin",
    "sinh", "sqrt", "tanh", "tan",
}
PANDAS_SERIES_METHODS = {
    "abs", "round", "sum", "mean", "median", "min", "max", "std", "var", "count", "nunique", "any", "all", "first", "last",
    "cumsum", "cumprod", "cummax", "cummin", "shift", "rank", "bfill", "ffill", "size",
}
PANDAS_GROUPBY_TRANSFORM = {
    "sum", "mean", "median", "min", "max", "std", "var", "count", "nunique", "any", "all", "first", "last", "size",
    "cumsum", "cumprod", "cummax", "cummin", "cumcount", "shift", "rank", "bfill", "ffill", "ngroup", "prod",
}

# pandas groupby transforms / aggregations whose value depends on the order of the rows within a group (pandas documentation: first / last are
# "the first / last non-null entry of each column", ffill / bfill propagate along the rows, cum* and shift run along them)
PANDAS_ORDER_SENSITIVE_TRANSFORMS = {"cumsum", "cumprod", "cummax", "cummin", "cumcount", "shift", "first", "last", "ffill", "bfill"}

# null semantics of numpy / polars primitives the executors bind comparison-like methods to
NULL_SEMANTICS = {
    "numpy.maximum": "propagate", "numpy.minimum": "propagate", "numpy.fmax": "ignore", "numpy.fmin": "ignore",
    "pl.max_horizontal": "ignore", "pl.min_horizontal": "ignore", "pl.coalesce": "first-non-null",
}

# the same primitives over pandas nullable (masked) columns: BaseMaskedArray.__array_ufunc__ ORs the operands' masks, whatever the ufunc
NULL_SEMANTICS_MASKED = {"numpy.fmax": "propagate", "numpy.fmin": "propagate", "numpy.maximum": "propagate", "numpy.minimum": "propagate"}

# documented null contracts of the comparison/selection family (from the property statement and the Term docstrings)
NULL_CONTRACT = {"maximum": "propagate", "minimum": "propagate", "fmax": "ignore", "fmin": "ignore"}
DOC_KEYWORDS = {"propagate": ("propogate missing", "propagate missing"), "ignore": ("ignore missing",)}

# characters special inside a string literal, per dialect (besides the string quote itself)
# characters (other than the quote itself) that are special inside a quoted string literal of the dialect
#   MySQL: backslash is an escape character unless NO_BACKSLASH_ESCAPES is set (MySQL manual 9.1.1 "String Literals")
#   BigQuery: backslash starts an escape sequence; a quoted (non triple-quoted) string cannot contain a raw newline
#             (GoogleSQL lexical structure, "String and bytes literals")
#   Spark SQL: backslash escapes unless spark.sql.parser.escapedStringLiterals=true (Spark SQL reference, "Literals")
#   SQLite / PostgreSQL (standard_conforming_strings=on, the default since 9.1): only the quote
STRING_LITERAL_SPECIALS = {
    "SQLiteModel": set(), "PostgreSQLModel": set(),
    "MySQLModel": {"\\"}, "BigQueryModel": {"\\", "\n"}, "SparkSQLModel": {"\\", "${"},  # Spark substitutes ${…} in the query text before parsing
    "PolarsSQLModel": set(),
}
# how the dialect lets a literal contain its own quote character
#   BigQuery: backslash escape only; adjacent literals "a""b" are not one literal (GoogleSQL lexical structure)
QUOTE_ESCAPE_STYLE = {
    "SQLiteModel": {"double"}, "PostgreSQLModel": {"double"}, "MySQLModel": {"double", "backslash"},
    # Spark: backslash escapes always; a doubled quote is one quote only from Spark 4.0 — Spark 3.x reads "a""b" as two adjacent literals and
    # concatenates them (spark.sql.legacy.consecutiveStringLiterals.enabled); the library's own dev environment pins pyspark 3.4.1
    "SparkSQLModel": {"backslash"}, "BigQueryModel": {"backslash"},
}
# characters special inside a quoted identifier (other than the quote, which quote_identifier rejects)
#   BigQuery: quoted identifiers "have the same escape sequences as string literals" (GoogleSQL lexical structure)
IDENTIFIER_SPECIALS = {
    "SQLiteModel": set(), "PostgreSQLModel": set(), "MySQLModel": set(), "SparkSQLModel": set(), "BigQueryModel": {"\\"},
}

# names a dialect cannot refer to however they are quoted: the quoting function has to refuse them (constants that must appear in a raising test)
#   Spark: spark.sql.variable.substitute (default on) replaces ${…} in the whole query text, identifiers included
#   SQLite: a sub-query column called true / false is renamed columnN, and the unmatched "True" is then read as the string 'True' (3.40)
IDENTIFIER_REFUSALS = {
    "SparkSQLModel": [({"${"}, "a column named ${system:user.name} comes back named after the substituted value (root)")],
    "SQLiteModel": [({"true", "false"}, "columns True, False (a pivot on a flag), referred to through a sub-query or CTE, come back as the texts 'True', 'False': "
                                        "True / (True + False) is 0.0 where Pandas gives 0.17")],
}

POSTGRESQL_JOIN_KEYWORDS = {"INNER JOIN", "LEFT JOIN", "RIGHT JOIN", "FULL JOIN", "CROSS JOIN",
                            "LEFT OUTER JOIN", "RIGHT OUTER JOIN", "FULL OUTER JOIN", "JOIN"}
SQLITE_JOIN_KEYWORDS = {"INNER JOIN", "LEFT JOIN", "CROSS JOIN", "LEFT OUTER JOIN", "JOIN",
                        "RIGHT JOIN", "FULL JOIN", "RIGHT OUTER JOIN", "FULL OUTER JOIN"}  # 3.39+

# keywords that look like function calls in templates (NAME followed by '(') but are syntax
SQL_SYNTAX_WORDS = {"case", "when", "then", "else", "end", "cast", "and", "or", "not", "in", "is", "null", "as", "over", "partition",
                    "by", "order", "distinct", "from", "select", "exists", "between", "like"}
POSTGRESQL_TYPES = {"BIGINT", "INTEGER", "INT", "SMALLINT", "DOUBLE PRECISION", "REAL", "NUMERIC", "DECIMAL", "FLOAT", "VARCHAR",
                    "TEXT", "CHAR", "BOOLEAN", "DATE", "TIMESTAMP", "TIME", "INTERVAL"}


# forms of built-in SQL functions whose meaning differs from the catalogued (numpy) meaning they are used for.
# (dialect, FUNCTION, number of arguments) -> why
SQL_FUNCTION_FORM_CAVEATS = {
    ("SQLiteModel", "ROUND", 2): "SQLite's ROUND(X, Y) takes a negative Y as 0 and rounds on the decimal rendering of X (sqlite.org/lang_corefunc.html#round); "
                                 "rounding to d decimals in the numpy sense needs the explicit scaling ROUND(x * POWER(10, d)) / POWER(10, d)",
    ("SQLiteModel", "ROUND", 1): "SQLite's built-in ROUND(X) rounds halves away from zero and works on the decimal rendering (ROUND(2.5) = 3, ROUND(0.49999999999999994) = 1); "
                                 "numpy.round — the Pandas and Polars meaning — rounds halves to even (2.5 -> 2): x.round() and x.around(k) differ on ties unless a user function "
                                 "`round` replaces the built-in",
    ("PostgreSQLModel", "ROUND", 2): "PostgreSQL has ROUND(numeric, integer) only: ROUND(double precision, integer) does not exist and the query fails",
    ("PostgreSQLModel", "LOG", 1): "LOG(x) is the base-10 logarithm in PostgreSQL; the natural logarithm is LN(x)",
    ("SQLiteModel", "MAX", 2): "the two-argument scalar MAX returns NULL if any argument is NULL (propagates); as an aggregate it ignores NULL",
}


# aggregators that collapse a whole partition to one value.  Pandas realises `x.<agg>()` in a window as groupby.transform(<agg>) — the
# whole partition on every row — whatever order_by says; SQL's `<AGG>(x) OVER (PARTITION BY … ORDER BY …)` has the default frame
# RANGE BETWEEN UNBOUNDED PRECEDING AND CURRENT ROW, i.e. a *running* aggregate.  The two agree only without ORDER BY, so the library
# forbids these names in ordered windows (expr_rep.fn_names_that_contradict_ordered_windowed_situation).
WHOLE_PARTITION_AGGREGATORS = {"all", "any", "any_value", "count", "max", "mean", "median", "min", "nunique", "prod", "size", "_size", "sum",
                               "std", "var"}


# numpy / pandas comparisons never return a missing value: with a NaN (missing) operand == < <= > >= give False and != gives True.
# SQL comparisons are three-valued: any NULL operand gives NULL (which select_rows / WHERE treats as "not true", and NOT NULL is NULL).
PANDAS_COMPARISON_ON_NULL = {"==": False, "!=": True, "<": False, "<=": False, ">": False, ">=": False}


# forms of SQL *syntax* whose meaning differs from the catalogued meaning.  (dialect, operator) -> (regex over the folded template, regex that lifts it, why)
_SQLITE_PERCENT = (r"\s%\s", r"FLOOR\(", "SQLite's % casts both operands to INTEGER and gives the result the sign of the dividend (sqlite.org/lang_expr.html): 5.5 % 2 = 1, "
                   "-7 % 2 = -1, 7.5 % 0.5 = NULL; the catalogued meaning (numpy.mod / remainder) is the floored modulo 1.5, 1, 0.0 — "
                   "x - FLOOR(x / (1.0 * y)) * y, the form the shared generator already has for remainder")
_SQLITE_FLOOR_MOD = (r"FLOOR\(.*1\.0 \*", r"typeof\(", "the floored form x - FLOOR(x / (1.0 * y)) * y computes in double precision: for integers above 2**53 the result is wrong "
                     "(1700000000123456999 % 1000 = -1 instead of 999); integer operands need an exact integer branch (typeof(x) = 'integer' ...)")
SQL_TEMPLATE_CAVEATS = {
    ("SQLiteModel", "%"): [_SQLITE_PERCENT, _SQLITE_FLOOR_MOD], ("SQLiteModel", "mod"): [_SQLITE_PERCENT, _SQLITE_FLOOR_MOD],
    ("SQLiteModel", "remainder"): [_SQLITE_PERCENT, _SQLITE_FLOOR_MOD],
    ("SQLiteModel", "as_str"): (r"CAST\(.* AS (VARCHAR|TEXT)\)", r"PRINTF\(|FORMAT\(",
                                "SQLite's CAST(x AS VARCHAR) prints a REAL with 15 significant digits ('0.333333333333333', '1.0e+20') and a logical expression as 0 / 1; "
                                "the catalogued meaning, Pandas astype(str), is repr(float) ('0.3333333333333333', '1e+20') and 'True' / 'False' — the texts differ as "
                                "strings, group keys and join keys (text is not covered by any float tolerance)"),
    ("PostgreSQLModel", "as_int64"): (r"CAST\(.* AS (BIGINT|INTEGER|INT)\)", r"TRUNC\(|FLOOR\(",
                                      "PostgreSQL rounds to nearest when casting a float to an integer type (CAST(2.7 AS BIGINT) = 3, documentation 8.1 / "
                                      "numeric-to-integer casts round); the catalogued meaning, numpy astype(int64), truncates (2): wrap the argument in TRUNC()"),
}


# ---------------------------------------------------------------------------------------------------------------------
# What a step does with the row order it receives (C06, order_rows elimination).  Confirmed by reading the Pandas step
# implementations and by running order_rows(['x']) -> <step> -> order_rows([], limit=2) chained against step-at-a-time
# (probe of 2026-09-22: every "keeps"/"reads" row differed; convert_records did not).
#   replaces: the step's result (rows and their order) does not depend on the incoming row order
#   keeps:    rows come out in the order they came in, so a later bare limit / the final result still shows the ordering
#   reads:    the step's *values* can depend on the incoming row order
ORDER_ROLE_OF_BUILDERS = {
    "order_rows": ("replaces", "with order columns of its own (the columns-empty case is guarded, C06-S5)"),
    "convert_records": ("replaces", "both record transforms sort their result by the record keys"),
    "extend_parsed_": ("keeps", "row-wise and windowed extends write columns on the incoming frame"),
    "select_rows_parsed_": ("keeps", "filtering keeps the relative order of the surviving rows"),
    "select_rows": ("keeps", "parses and calls select_rows_parsed_"),
    "drop_columns": ("keeps", "column subset"),
    "select_columns": ("keeps", "column subset"),
    "map_columns": ("keeps", "column renaming / deletion"),
    "rename_columns": ("keeps", "column renaming"),
    "natural_join": ("keeps", "left/inner/full merge keeps the left operand's row order"),
    "concat_rows": ("keeps", "rows of a then rows of b"),
    "project_parsed_": ("keeps", "the groups come out in the order of their first row on Polars (group_by(maintain_order=True)); any_value() picks by position"),
}


# ---------------------------------------------------------------------------------------------------------------------
# collections.abc.Set / MutableSet mixin operators (CPython Lib/_collections_abc.py): which operand the *result* is iterated from.
#   __and__(self, other):  self._from_iterable(value for value in other if value in self)       -> order of OTHER
#   __or__(self, other):   self._from_iterable(e for s in (self, other) for e in s)              -> self, then other
#   __sub__(self, other):  self._from_iterable(value for value in self if value not in other)    -> order of self
#   __xor__(self, other):  (self - other) | (other - self)                                       -> self, then other
#   __iand__/__ior__/__isub__/__ixor__ (MutableSet): discard / add in place                       -> first-insertion order of self kept
# An ordered set that wants "ordered by the first operand" must therefore define __and__ itself.
ABC_SET_MIXINS_ORDERED_BY_OTHER = {"__and__": "Set.__and__ iterates `other` and keeps what is in self"}
# Corrected after the fifth hunt: "(other - self)" in Set.__xor__ is *other's* operator when other is itself a Set — a dict keys view, set,
# frozenset keep their own __sub__, which answers with a plain (hash ordered) set: OrderedSet([7, 0]) ^ {10: .., 3: .., 1: .., 0: ..}.keys()
# iterates 7, 1, 10, 3, and with text elements the order changes with PYTHONHASHSEED.  (__or__ chains self and other itself, __sub__
# iterates self: those stay ordered whatever the other operand is.)
ABC_SET_MIXINS_DELEGATING_TO_OTHER = {"__xor__": "Set.__xor__ computes (self - other) | (other - self); a Set operand answers `other - self` with a plain set"}
