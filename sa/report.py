"""Result model, known-findings matching, evidence and replay files, exit protocol."""
from __future__ import annotations

import json
import os
import time
from typing import Any, Dict, List, Optional

VERIF = os.path.dirname(os.path.dirname(os.path.abspath(__file__)))
EVIDENCE_DIR = os.path.join(VERIF, "evidence")
REPLAY_DIR = os.path.join(EVIDENCE_DIR, "replay")
KNOWN_FILE = os.path.join(VERIF, "known_findings.json")


class Finding:
    def __init__(self, rule: str, where: str, construct: str, message: str,
                 file: str = "", line: int = 0, facts: Optional[Dict[str, Any]] = None):
        self.rule = rule            # e.g. C06-S1
        self.where = where          # module:qualname
        self.construct = construct  # stable name of the offending construct (no line numbers)
        self.message = message
        self.file = file
        self.line = line
        self.facts = facts or {}

    def key(self):
        return (self.rule, self.where, self.construct)

    def to_json(self):
        return {"rule": self.rule, "where": self.where, "construct": self.construct,
                "message": self.message, "file": self.file, "line": self.line, "facts": self.facts}

    def text(self):
        return f"{self.file}:{self.line} {self.where} — {self.rule} — {self.construct} — {self.message}"


class Result:
    """Collected while a property's rules run."""

    def __init__(self, prop: str):
        self.prop = prop
        self.obligations: List[Dict[str, Any]] = []
        self.findings: List[Finding] = []
        self.functions: set = set()
        self.rules: Dict[str, str] = {}
        self.assumptions: List[str] = []
        self.notes: List[str] = []
        self.extra: Dict[str, Any] = {}

    def rule(self, rid: str, text: str):
        self.rules[rid] = text

    def analysed(self, *funcs):
        for f in funcs:
            self.functions.add(f if isinstance(f, str) else f.where())

    def ok(self, rule: str, instance: str, facts: Any = None, nontrivial: bool = True):
        self.obligations.append({"rule": rule, "instance": instance, "status": "discharged",
                                 "facts": facts, "nontrivial": bool(nontrivial)})

    def abstain(self, rule: str, instance: str, why: str):
        self.obligations.append({"rule": rule, "instance": instance, "status": "abstained",
                                 "facts": why, "nontrivial": False})

    def fail(self, rule: str, where: str, construct: str, message: str, file: str = "", line: int = 0,
             facts: Optional[Dict[str, Any]] = None, instance: Optional[str] = None):
        self.obligations.append({"rule": rule, "instance": instance or f"{where} {construct}",
                                 "status": "violated", "facts": message, "nontrivial": True})
        self.findings.append(Finding(rule, where, construct, message, file, line, facts))

    def fail_at(self, rule: str, func, construct: str, message: str, node=None, facts=None):
        line = getattr(node, "lineno", None) or getattr(getattr(func, "node", None), "lineno", 0)
        self.fail(rule, func.where(), construct, message, getattr(func, "file", ""), line, facts)

    def expect_count(self, rule: str, what: str, got: int, at_least: int):
        from .index import AnalysisError
        if got < at_least:
            raise AnalysisError(f"{rule}: only {got} {what} matched, at least {at_least} were confirmed by hand "
                                f"on the pinned tree — the rule would pass vacuously")


class Relabel:
    """proxy of a Result that files another property's rule instances under this property's rule ids"""

    def __init__(self, res: Result, mapping: Dict[str, str]):
        self._res = res
        self._map = mapping

    def _r(self, rule: str) -> str:
        return self._map.get(rule, self._map.get("*", rule))

    def rule(self, rid, text):
        pass

    def analysed(self, *funcs):
        self._res.analysed(*funcs)

    def ok(self, rule, instance, facts=None, nontrivial=True):
        self._res.ok(self._r(rule), instance, facts, nontrivial)

    def abstain(self, rule, instance, why):
        self._res.abstain(self._r(rule), instance, why)

    def fail(self, rule, where, construct, message, file="", line=0, facts=None, instance=None):
        self._res.fail(self._r(rule), where, construct, message, file, line, facts, instance)

    def fail_at(self, rule, func, construct, message, node=None, facts=None):
        self._res.fail_at(self._r(rule), func, construct, message, node, facts)

    def expect_count(self, rule, what, got, at_least):
        self._res.expect_count(self._r(rule), what, got, at_least)

    @property
    def assumptions(self):
        return self._res.assumptions

    @property
    def notes(self):
        return self._res.notes

    @property
    def extra(self):
        return self._res.extra

    @property
    def findings(self):
        return self._res.findings

    @property
    def obligations(self):
        return self._res.obligations


def load_known() -> List[Dict[str, Any]]:
    if not os.path.exists(KNOWN_FILE):
        return []
    with open(KNOWN_FILE) as f:
        return json.load(f).get("findings", [])


def match_known(prop: str, f: Finding, known: List[Dict[str, Any]]) -> Optional[Dict[str, Any]]:
    for k in known:
        if k.get("status") != "known":
            continue  # fixed entries suppress nothing
        if k.get("property") == prop and k.get("rule") == f.rule and k.get("where") == f.where \
                and k.get("construct") == f.construct:
            return k
    return None


def finish(res: Result, tier: str, t0: float, explanation: str, level: str = "other") -> int:
    os.makedirs(REPLAY_DIR, exist_ok=True)
    known = load_known()
    new: List[Finding] = []
    known_hit: List[Finding] = []
    for f in res.findings:
        k = match_known(res.prop, f, known)
        if k is not None:
            known_hit.append(f)
            print(f"KNOWN-FINDING: property={res.prop} {f.rule} {f.where} [{f.construct}] {k.get('what', f.message)}")
        else:
            new.append(f)
    # stale replay files of this property
    for fn in os.listdir(REPLAY_DIR):
        if fn.startswith(res.prop + "-"):
            try:
                os.remove(os.path.join(REPLAY_DIR, fn))
            except OSError:
                pass
    for i, f in enumerate(new):
        path = os.path.join(REPLAY_DIR, f"{res.prop}-{f.rule}-{i}.json")
        with open(path, "w") as fh:
            json.dump({"property": res.prop, **f.to_json()}, fh, indent=1, default=str)
        print(f"  {f.text()}")
        print(f"VIOLATION property={res.prop} replay={path}")
    n_obl = len(res.obligations)
    n_dis = sum(1 for o in res.obligations if o["status"] == "discharged")
    n_abst = sum(1 for o in res.obligations if o["status"] == "abstained")
    distinct_nontrivial = len({(o["rule"], o["instance"]) for o in res.obligations
                               if o["nontrivial"] and o["status"] != "abstained"})
    samples = []
    seen_rules = set()
    for o in res.obligations:
        if o["rule"] not in seen_rules or o["status"] == "violated":
            seen_rules.add(o["rule"])
            samples.append({k: o[k] for k in ("rule", "instance", "status", "facts")})
    samples = samples[:40]
    ev = {
        "property_id": res.prop,
        "tier": tier,
        "seed": int(os.environ.get("VERIF_SEED", "0") or 0),
        "level": level,
        "coverage": {
            "explanation": explanation,
            "rules": res.rules,
            "obligations": n_obl,
            "discharged": n_dis,
            "abstained": n_abst,
            "violated_known": len(known_hit),
            "violated_new": len(new),
            "evaluations": n_obl,
            "distinct_nontrivial": distinct_nontrivial,
            "rule": "one evaluation = one rule instance (rule x construct found in the current source); "
                    "non-trivial = the verdict depended on facts extracted from the source (not an "
                    "abstention or an empty match); distinct = distinct (rule, construct) pairs",
            "samples": samples,
            "functions_analysed": sorted(res.functions),
            "exhaustive": True,
            **res.extra,
        },
        "assumptions": res.assumptions,
        "wall_s": round(time.time() - t0, 3),
        "violations": len(new),
    }
    if res.notes:
        ev["coverage"]["notes"] = res.notes
    os.makedirs(EVIDENCE_DIR, exist_ok=True)
    with open(os.path.join(EVIDENCE_DIR, f"{res.prop}.json"), "w") as fh:
        json.dump(ev, fh, indent=1, default=str)
    print(f"{res.prop} [{tier}] rules={len(res.rules)} obligations={n_obl} discharged={n_dis} "
          f"abstained={n_abst} known={len(known_hit)} new={len(new)} functions={len(res.functions)} "
          f"wall={ev['wall_s']}s")
    return 1 if new else 0


class Only(Relabel):
    """like Relabel, but instances of rules that are not in the mapping are dropped (reuse of one sub-rule of another property)"""

    def _keep(self, rule):
        return rule in self._map

    def ok(self, rule, instance, facts=None, nontrivial=True):
        if self._keep(rule):
            super().ok(rule, instance, facts, nontrivial)

    def abstain(self, rule, instance, why):
        if self._keep(rule):
            super().abstain(rule, instance, why)

    def fail(self, rule, where, construct, message, file="", line=0, facts=None, instance=None):
        if self._keep(rule):
            super().fail(rule, where, construct, message, file, line, facts, instance)

    def fail_at(self, rule, func, construct, message, node=None, facts=None):
        if self._keep(rule):
            super().fail_at(rule, func, construct, message, node, facts)

    def expect_count(self, rule, what, got, at_least):
        if self._keep(rule):
            super().expect_count(rule, what, got, at_least)
