"""E3 statement-level control-flow graph over the statement kinds the repository uses.

Nodes are statements (or the test of a compound statement); edges carry the branch label.
Queries: dominators, post-dominators, reachability, guards (a branch that dominates a node and
only one of whose arms can reach it), bounded acyclic path enumeration (loops unrolled 0/1).
"""
from __future__ import annotations

import ast
from typing import Dict, Iterator, List, Optional, Set, Tuple

from .index import AnalysisError


class Node:
    __slots__ = ("id", "kind", "stmt", "cond", "succ", "pred", "line")

    def __init__(self, nid: int, kind: str, stmt: Optional[ast.AST], cond: Optional[ast.AST] = None):
        self.id = nid
        self.kind = kind  # entry exit stmt test iter return raise assertfail with handler
        self.stmt = stmt
        self.cond = cond
        self.succ: List[Tuple[int, object]] = []
        self.pred: List[Tuple[int, object]] = []
        self.line = getattr(stmt, "lineno", 0) if stmt is not None else 0

    def __repr__(self):
        return f"<N{self.id} {self.kind} L{self.line}>"


class CFG:
    def __init__(self, func: ast.AST):
        self.func = func
        self.nodes: List[Node] = []
        self.entry = self._new("entry", None).id
        self.exit = self._new("exit", None).id  # virtual exit: successor of every return / raise / fall-off
        self._loop_stack: List[Tuple[int, List[int]]] = []  # (continue target, break sources)
        self._handler_stack: List[List[int]] = []
        self.stmt_node: Dict[int, int] = {}  # id(ast stmt) -> node id
        ends = self._block(func.body, [(self.entry, None)])
        fall = self._new("falloff", None)
        self._connect(ends, fall.id)
        self._edge(fall.id, self.exit, None)
        self._dom: Optional[Dict[int, Set[int]]] = None
        self._pdom: Optional[Dict[int, Set[int]]] = None
        self.parents: Dict[int, List[ast.AST]] = {}
        self._index_parents(func, [])

    def _index_parents(self, node: ast.AST, chain: List[ast.AST]):
        for ch in ast.iter_child_nodes(node):
            if isinstance(ch, ast.stmt):
                self.parents[id(ch)] = list(chain)
                if isinstance(ch, (ast.FunctionDef, ast.AsyncFunctionDef, ast.ClassDef)):
                    continue
                self._index_parents(ch, chain + [ch])
            elif isinstance(ch, ast.ExceptHandler):
                self.parents[id(ch)] = list(chain)
                self._index_parents(ch, chain + [ch])

    def lexical_guards(self, node: "Node") -> List[Tuple["Node", object]]:
        """enclosing If/While/For/Assert tests of a node, innermost last, with the arm the node sits in"""
        out: List[Tuple[Node, object]] = []
        st = node.stmt
        if st is None:
            return out
        if node.kind == "assertfail":
            t = self.nodes[self.stmt_node[id(st)]]
            chain = self.parents.get(id(st), [])
            out_tail = [(t, False)]
        else:
            chain = self.parents.get(id(st), [])
            out_tail = []
        child = st
        for anc in reversed(chain):
            if isinstance(anc, (ast.If, ast.While, ast.For)) and id(anc) in self.stmt_node:
                arm = True if any(child is b for b in anc.body) else False
                out.append((self.nodes[self.stmt_node[id(anc)]], arm))
            child = anc
        out.reverse()
        return out + out_tail

    # ---- construction ----
    def _new(self, kind, stmt, cond=None) -> Node:
        n = Node(len(self.nodes), kind, stmt, cond)
        self.nodes.append(n)
        if stmt is not None and kind not in ("assertfail",):
            self.stmt_node.setdefault(id(stmt), n.id)
        return n

    def _edge(self, a: int, b: int, label):
        self.nodes[a].succ.append((b, label))
        self.nodes[b].pred.append((a, label))

    def _connect(self, ends: List[Tuple[int, object]], target: int):
        for (a, label) in ends:
            self._edge(a, target, label)

    def _exc_edges(self, nid: int):
        if self._handler_stack:
            for h in self._handler_stack[-1]:
                self._edge(nid, h, "exc")

    def _block(self, stmts: List[ast.stmt], ends: List[Tuple[int, object]]) -> List[Tuple[int, object]]:
        for st in stmts:
            if not ends:
                break  # unreachable code after return/raise
            ends = self._stmt(st, ends)
        return ends

    def _stmt(self, st: ast.stmt, ends):
        if isinstance(st, ast.If):
            t = self._new("test", st, st.test)
            self._connect(ends, t.id)
            self._exc_edges(t.id)
            e1 = self._block(st.body, [(t.id, True)])
            e2 = self._block(st.orelse, [(t.id, False)]) if st.orelse else [(t.id, False)]
            return e1 + e2
        if isinstance(st, ast.While):
            t = self._new("test", st, st.test)
            self._connect(ends, t.id)
            self._exc_edges(t.id)
            breaks: List[int] = []
            self._loop_stack.append((t.id, breaks))
            body_ends = self._block(st.body, [(t.id, True)])
            self._loop_stack.pop()
            self._connect(body_ends, t.id)
            is_true = isinstance(st.test, ast.Constant) and bool(st.test.value) is True
            out = [] if is_true else [(t.id, False)]
            if st.orelse:
                out = self._block(st.orelse, out)
            return out + [(b, None) for b in breaks]
        if isinstance(st, (ast.For, ast.AsyncFor)):
            t = self._new("iter", st, st.iter)
            self._connect(ends, t.id)
            self._exc_edges(t.id)
            breaks = []
            self._loop_stack.append((t.id, breaks))
            body_ends = self._block(st.body, [(t.id, True)])
            self._loop_stack.pop()
            self._connect(body_ends, t.id)
            out = [(t.id, False)]
            if st.orelse:
                out = self._block(st.orelse, out)
            return out + [(b, None) for b in breaks]
        if isinstance(st, (ast.With, ast.AsyncWith)):
            w = self._new("with", st)
            self._connect(ends, w.id)
            self._exc_edges(w.id)
            return self._block(st.body, [(w.id, None)])
        if isinstance(st, ast.Try) or st.__class__.__name__ == "TryStar":
            handlers = []
            for h in st.handlers:
                hn = self._new("handler", h)
                handlers.append(hn)
            tn = self._new("try", st)
            self._connect(ends, tn.id)
            self._handler_stack.append([h.id for h in handlers])
            for h in handlers:
                self._edge(tn.id, h.id, "exc")
            body_ends = self._block(st.body, [(tn.id, None)])
            self._handler_stack.pop()
            if st.orelse:
                body_ends = self._block(st.orelse, body_ends)
            outs = list(body_ends)
            for h, hn in zip(st.handlers, handlers):
                outs += self._block(h.body, [(hn.id, None)])
            if st.finalbody:
                outs = self._block(st.finalbody, outs)
            return outs
        if isinstance(st, ast.Return):
            n = self._new("return", st)
            self._connect(ends, n.id)
            self._exc_edges(n.id)
            self._edge(n.id, self.exit, None)
            return []
        if isinstance(st, ast.Raise):
            n = self._new("raise", st)
            self._connect(ends, n.id)
            if self._handler_stack:
                self._exc_edges(n.id)
            else:
                self._edge(n.id, self.exit, None)
            return []
        if isinstance(st, ast.Assert):
            t = self._new("test", st, st.test)
            self._connect(ends, t.id)
            f = self._new("assertfail", st)
            self._edge(t.id, f.id, False)
            if self._handler_stack:
                self._exc_edges(f.id)
            else:
                self._edge(f.id, self.exit, None)
            return [(t.id, True)]
        if isinstance(st, ast.Break):
            n = self._new("stmt", st)
            self._connect(ends, n.id)
            if not self._loop_stack:
                raise AnalysisError("break outside loop")
            self._loop_stack[-1][1].append(n.id)
            return []
        if isinstance(st, ast.Continue):
            n = self._new("stmt", st)
            self._connect(ends, n.id)
            if not self._loop_stack:
                raise AnalysisError("continue outside loop")
            self._edge(n.id, self._loop_stack[-1][0], None)
            return []
        if st.__class__.__name__ == "Match":
            raise AnalysisError("match statement not modelled")
        n = self._new("stmt", st)
        self._connect(ends, n.id)
        self._exc_edges(n.id)
        return [(n.id, None)]

    # ---- queries ----
    def node_of(self, stmt: ast.AST) -> Node:
        nid = self.stmt_node.get(id(stmt))
        if nid is None:
            raise AnalysisError(f"statement at line {getattr(stmt, 'lineno', '?')} has no CFG node (unreachable?)")
        return self.nodes[nid]

    def has_node(self, stmt: ast.AST) -> bool:
        return id(stmt) in self.stmt_node

    def containing_node(self, expr: ast.AST) -> Node:
        """the CFG node whose statement (or condition) contains the expression node"""
        best = None
        for n in self.nodes:
            root = n.cond if n.kind in ("test", "iter") else n.stmt
            if root is None:
                continue
            if n.kind in ("test", "iter"):
                roots = [root]
            elif isinstance(n.stmt, (ast.With, ast.AsyncWith)):
                roots = [i for it in n.stmt.items for i in (it.context_expr, it.optional_vars) if i is not None]
            elif isinstance(n.stmt, (ast.Try, ast.ExceptHandler, ast.FunctionDef, ast.ClassDef)):
                continue
            else:
                roots = [n.stmt]
            for r in roots:
                for sub in ast.walk(r):
                    if sub is expr:
                        best = n
                        break
                if best is not None:
                    break
            if best is not None:
                break
        if best is None:
            raise AnalysisError(f"expression at line {getattr(expr, 'lineno', '?')} is in no reachable CFG node")
        return best

    def _compute_dom(self, forward: bool) -> Dict[int, Set[int]]:
        n = len(self.nodes)
        start = self.entry if forward else self.exit
        allset = set(range(n))
        dom = {i: set(allset) for i in range(n)}
        dom[start] = {start}
        changed = True
        order = list(range(n))
        while changed:
            changed = False
            for i in order:
                if i == start:
                    continue
                preds = [p for (p, _) in (self.nodes[i].pred if forward else self.nodes[i].succ)]
                preds = [p for p in preds if True]
                if not preds:
                    new = {i}
                else:
                    new = set.intersection(*[dom[p] for p in preds]) | {i}
                if new != dom[i]:
                    dom[i] = new
                    changed = True
        return dom

    def dominators(self) -> Dict[int, Set[int]]:
        if self._dom is None:
            self._dom = self._compute_dom(True)
        return self._dom

    def postdominators(self) -> Dict[int, Set[int]]:
        if self._pdom is None:
            self._pdom = self._compute_dom(False)
        return self._pdom

    def dominates(self, a: int, b: int) -> bool:
        return a in self.dominators()[b]

    def postdominates(self, a: int, b: int) -> bool:
        return a in self.postdominators()[b]

    def reachable_from(self, start: int, avoid: Set[int] = frozenset()) -> Set[int]:
        seen = set()
        todo = [start]
        while todo:
            x = todo.pop()
            if x in seen or x in avoid:
                continue
            seen.add(x)
            for (s, _) in self.nodes[x].succ:
                todo.append(s)
        return seen

    def live_nodes(self) -> Set[int]:
        return self.reachable_from(self.entry)

    def guards(self, target: int) -> List[Tuple[Node, object]]:
        """branch nodes B that dominate target and from only one of whose labelled arms target is reachable
        (without re-entering B).  Returns (B, label) pairs: target executes only if B took `label`."""
        out = []
        dom = self.dominators()[target]
        for b in sorted(dom):
            nb = self.nodes[b]
            if b == target or nb.kind not in ("test", "iter"):
                continue
            arms: Dict[object, bool] = {}
            for (s, label) in nb.succ:
                if label == "exc":
                    continue
                r = target in self.reachable_from(s, avoid={b})
                arms[label] = arms.get(label, False) or r
            reaching = [l for l, r in arms.items() if r]
            if len(reaching) == 1 and len(arms) >= 2:
                out.append((nb, reaching[0]))
        return out

    def paths(self, start: Optional[int] = None, targets: Optional[Set[int]] = None, limit: int = 50000,
              follow_exc: bool = False) -> Iterator[List[Tuple[int, object]]]:
        """acyclic paths (loop headers may be visited twice: loops unrolled 0/1) from start to any target
        (default: virtual exit).  Each path is a list of (node id, label of the edge taken out of it)."""
        start = self.entry if start is None else start
        targets = {self.exit} if targets is None else targets
        count = 0
        visits: Dict[int, int] = {}
        path: List[Tuple[int, object]] = []

        def rec(nid: int):
            nonlocal count
            if nid in targets:
                count += 1
                if count > limit:
                    raise AnalysisError(f"more than {limit} paths")
                yield list(path) + [(nid, None)]
                if nid == self.exit:
                    return
            node = self.nodes[nid]
            cap = 2 if node.kind in ("iter", "test") and isinstance(node.stmt, (ast.For, ast.While)) else 1
            if visits.get(nid, 0) >= cap:
                return
            visits[nid] = visits.get(nid, 0) + 1
            for (s, label) in node.succ:
                if label == "exc" and not follow_exc:
                    continue
                path.append((nid, label))
                yield from rec(s)
                path.pop()
            visits[nid] -= 1

        yield from rec(start)

    def returns(self) -> List[Node]:
        live = self.live_nodes()
        return [n for n in self.nodes if n.kind == "return" and n.id in live]

    def raises(self) -> List[Node]:
        live = self.live_nodes()
        return [n for n in self.nodes if n.kind in ("raise", "assertfail") and n.id in live]

    def stmt_nodes(self, kinds=("stmt", "return", "raise", "test", "iter", "with")) -> List[Node]:
        live = self.live_nodes()
        return [n for n in self.nodes if n.kind in kinds and n.id in live]

    def before(self, a: int, b: int) -> bool:
        """a precedes b on every path that reaches b (a dominates b, a != b)"""
        return a != b and self.dominates(a, b)


def build(func_node: ast.AST) -> CFG:
    return CFG(func_node)
