"""Tiny AST pattern matcher with metavariables, so that rules name constructs by shape and role instead of by the
spelling of a local variable.

A pattern is Python source.  In it, a name `_X` (underscore + capital) is a metavariable that binds any *Name* (the same
metavariable must bind the same identifier everywhere); `__X` binds any *expression* (compared by its unparsed text).
Everything else must match structurally (constants by value, attributes and keywords by name; keyword order is free;
extra keywords in the subject are allowed unless the pattern call carries the marker keyword `_exact=True`).

    pat.find("_F.loc[_M, _C] = _F.loc[_M, _C + __S]", fnode)  ->  [(node, {"_F": "res", "_M": "is_null", "_C": "c", "__S": "'_tmp'"})]
"""
from __future__ import annotations

import ast
import re
from typing import Dict, Iterator, List, Optional, Tuple

META = re.compile(r"^_[A-Z][A-Za-z0-9]*$")
META_EXPR = re.compile(r"^__[A-Z][A-Za-z0-9]*$")


def _parse(pattern: str) -> ast.AST:
    tree = ast.parse(pattern)
    if len(tree.body) != 1:
        raise ValueError("pattern must be one statement or expression")
    st = tree.body[0]
    return st.value if isinstance(st, ast.Expr) else st


def _m(p, n, env: Dict[str, str]) -> bool:
    if isinstance(p, ast.Name):
        if META_EXPR.match(p.id):
            txt = ast.unparse(n) if isinstance(n, ast.AST) else repr(n)
            if p.id in env:
                return env[p.id] == txt
            env[p.id] = txt
            return True
        if META.match(p.id):
            if not isinstance(n, ast.Name):
                return False
            if p.id in env:
                return env[p.id] == n.id
            env[p.id] = n.id
            return True
        return isinstance(n, ast.Name) and n.id == p.id
    if type(p) is not type(n):
        return False
    if isinstance(p, ast.Constant):
        return p.value == n.value
    if isinstance(p, ast.Call):
        if not _m(p.func, n.func, env):
            return False
        if len(p.args) != len(n.args) or not all(_m(a, b, env) for a, b in zip(p.args, n.args)):
            return False
        nk = {k.arg: k.value for k in n.keywords}
        exact = any(k.arg == "_exact" for k in p.keywords)
        for k in p.keywords:
            if k.arg == "_exact":
                continue
            if k.arg not in nk or not _m(k.value, nk[k.arg], env):
                return False
        if exact and len([k for k in p.keywords if k.arg != "_exact"]) != len(n.keywords):
            return False
        return True
    for f in p._fields:
        if f in ("ctx", "type_comment", "lineno", "col_offset", "end_lineno", "end_col_offset", "kind"):
            continue
        a, b = getattr(p, f, None), getattr(n, f, None)
        if isinstance(a, list):
            if not isinstance(b, list) or len(a) != len(b) or not all(_mm(x, y, env) for x, y in zip(a, b)):
                return False
        elif not _mm(a, b, env):
            return False
    return True


def _mm(a, b, env) -> bool:
    if isinstance(a, ast.AST):
        return isinstance(b, ast.AST) and _m(a, b, env)
    return a == b


def match(pattern: str, node: ast.AST) -> Optional[Dict[str, str]]:
    env: Dict[str, str] = {}
    return env if _m(_parse(pattern), node, env) else None


def find(pattern: str, tree: ast.AST) -> List[Tuple[ast.AST, Dict[str, str]]]:
    p = _parse(pattern)
    out = []
    for n in ast.walk(tree):
        if type(n) is type(p) or (isinstance(p, ast.Name) and isinstance(n, ast.expr)):
            env: Dict[str, str] = {}
            if _m(p, n, env):
                out.append((n, env))
    return out


def first(pattern: str, tree: ast.AST) -> Optional[Tuple[ast.AST, Dict[str, str]]]:
    r = find(pattern, tree)
    return r[0] if r else None
