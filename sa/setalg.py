"""Set-algebra abstract interpreter for the small column-bookkeeping functions of the operator nodes.

The function body is interpreted *symbolically* (structured, forking on every `if`) into set terms over
atoms: `using`, node fields (F:<name>), source column tuples (SRC<i>), the node's own columns (SELFCOLS),
the op dictionary (restricted by key sets), and rename maps.  A term can then be *evaluated* over a tiny
concrete universe of witness tokens supplied by a rule: the quantifier "for every pipeline" becomes "for
every symbolic return path and every witness valuation of the rule's table".  No repository code runs.

Recognised idioms are exactly those the repository uses; anything else raises AnalysisError for that
function (the check then reports ANALYSIS-ERROR rather than a verdict).
"""
from __future__ import annotations

import ast
from typing import Any, Dict, List, Optional, Tuple

from .index import AnalysisError, dotted_name, unparse

Term = Tuple  # ('atom', name) | ('union', t...) | ('inter', a, b) | ('diff', a, b) | ('empty',) | ...


def U(*ts):
    ts = [t for t in ts if t != ("empty",)]
    if not ts:
        return ("empty",)
    if len(ts) == 1:
        return ts[0]
    return ("union",) + tuple(ts)


class Interp:
    def __init__(self, func: ast.FunctionDef, using_param: str = "using", node_param: str = "self"):
        self.func = func
        self.using = using_param
        self.node = node_param
        self.results: List[Tuple[List[str], Any]] = []  # (path conditions, returned value)

    # ---------------- expressions ----------------
    def field_atom(self, e: ast.AST) -> Optional[Term]:
        d = dotted_name(e)
        if d is None:
            return None
        parts = d.split(".")
        if parts[0] != self.node:
            return None
        if len(parts) == 2:
            if parts[1] == "column_names":
                return ("atom", "SELFCOLS")
            return ("atom", "F:" + parts[1])
        if len(parts) >= 3:
            return ("atom", "F:" + ".".join(parts[1:]))
        return None

    def ev(self, e: ast.AST, env: Dict[str, Any]) -> Any:
        """returns a Term, or ('list', [terms]) for list-of-sets results, or special values"""
        if isinstance(e, ast.Name):
            if e.id in env:
                return env[e.id]
            raise AnalysisError(f"setalg: unknown name {e.id}")
        if isinstance(e, ast.Constant):
            if e.value is None:
                return ("none",)
            return ("const", e.value)
        if isinstance(e, ast.Attribute):
            # self.sources[i].column_names handled in Subscript branch below via dotted pattern
            fa = self.field_atom(e)
            if fa is not None:
                return fa
            if e.attr == "column_names":
                base = self.ev(e.value, env)
                if isinstance(base, tuple) and base[0] == "source":
                    return ("atom", f"SRC{base[1]}")
            raise AnalysisError(f"setalg: unrecognised attribute {unparse(e)}")
        if isinstance(e, ast.Subscript):
            if unparse(e.value) == f"{self.node}.sources":
                idx = self.ev(e.slice, env)
                if isinstance(idx, tuple) and idx[0] == "const" and isinstance(idx[1], int):
                    return ("source", idx[1])
                raise AnalysisError(f"setalg: non-constant source index {unparse(e)}")
            base = self.ev(e.value, env)
            if isinstance(base, tuple) and base[0] == "list":
                idx = self.ev(e.slice, env)
                if isinstance(idx, tuple) and idx[0] == "const":
                    return base[1][idx[1]]
            raise AnalysisError(f"setalg: unrecognised subscript {unparse(e)}")
        if isinstance(e, ast.List):
            return ("list", [self.ev(x, env) for x in e.elts])
        if isinstance(e, ast.BinOp):
            a = self.ev(e.left, env)
            b = self.ev(e.right, env)
            if isinstance(e.op, ast.Sub):
                return ("diff", self.as_set(a), self.as_set(b))
            if isinstance(e.op, ast.BitOr):
                return U(self.as_set(a), self.as_set(b))
            if isinstance(e.op, ast.Add):
                # list concatenation of column lists
                return U(self.as_set(a), self.as_set(b))
            if isinstance(e.op, ast.BitAnd):
                return ("inter", self.as_set(a), self.as_set(b))
            raise AnalysisError(f"setalg: operator in {unparse(e)}")
        if isinstance(e, ast.Call):
            return self.ev_call(e, env)
        if isinstance(e, (ast.ListComp, ast.SetComp, ast.GeneratorExp)):
            return self.ev_comp(e, env)
        if isinstance(e, ast.DictComp):
            return self.ev_dictcomp(e, env)
        raise AnalysisError(f"setalg: unrecognised expression {unparse(e)}")

    def as_set(self, v: Any) -> Term:
        if isinstance(v, tuple) and v[0] in ("atom", "union", "inter", "diff", "empty", "opcols", "opkeys", "image", "mapkeys"):
            return v
        if isinstance(v, tuple) and v[0] == "ops":
            return ("opkeys", v[1])
        raise AnalysisError(f"setalg: value {v!r} is not a column set")

    def ev_call(self, e: ast.Call, env):
        fn = e.func
        dn = dotted_name(fn) or ""
        # wrappers that keep the element set
        if dn in ("set", "OrderedSet", "list", "tuple", "frozenset", "sorted") and len(e.args) <= 1:
            if not e.args:
                return ("empty",)
            v = self.ev(e.args[0], env)
            return self.as_set(v)
        if dn == "ordered_intersect" and len(e.args) == 2:
            return ("inter", self.as_set(self.ev(e.args[0], env)), self.as_set(self.ev(e.args[1], env)))
        if dn == "ordered_union" and len(e.args) == 2:
            return U(self.as_set(self.ev(e.args[0], env)), self.as_set(self.ev(e.args[1], env)))
        if dn == "ordered_diff" and len(e.args) == 2:
            return ("diff", self.as_set(self.ev(e.args[0], env)), self.as_set(self.ev(e.args[1], env)))
        if dn == "range" and len(e.args) == 1 and isinstance(e.args[0], ast.Constant):
            return ("range", e.args[0].value)
        if dn == "len":
            return ("len", self.ev(e.args[0], env))
        if isinstance(fn, ast.Attribute):
            recv = self.ev(fn.value, env)
            m = fn.attr
            if m == "copy" and not e.args:
                return recv
            if m in ("union",):
                return U(self.as_set(recv), *[self.as_set(self.ev(a, env)) for a in e.args])
            if m == "intersection":
                t = self.as_set(recv)
                for a in e.args:
                    t = ("inter", t, self.as_set(self.ev(a, env)))
                return t
            if m == "difference":
                t = self.as_set(recv)
                for a in e.args:
                    t = ("diff", t, self.as_set(self.ev(a, env)))
                return t
            if m == "keys" and not e.args:
                if isinstance(recv, tuple) and recv[0] == "ops":
                    return ("opkeys", recv[1])
                if isinstance(recv, tuple) and recv[0] == "map":
                    return ("mapkeys", recv)
                if isinstance(recv, tuple) and recv[0] == "atom" and recv[1].startswith("F:"):
                    return ("mapkeys", ("map", recv[1][2:], False))
            if m in ("items", "values") and not e.args:
                if isinstance(recv, tuple) and recv[0] == "ops":
                    return ("opitems", recv[1], m)
                if isinstance(recv, tuple) and recv[0] == "atom" and recv[1].startswith("F:"):
                    if recv[1] == "F:ops":
                        return ("opitems", ("all",), m)
                    return ("mapitems", ("map", recv[1][2:], False), m)
        raise AnalysisError(f"setalg: unrecognised call {unparse(e)}")

    def ev_comp(self, e, env):
        if len(e.generators) != 1:
            raise AnalysisError(f"setalg: nested comprehension {unparse(e)}")
        gen = e.generators[0]
        it = self.ev(gen.iter, env)
        # [expr for i in range(n)] -> list of per-source terms
        if isinstance(it, tuple) and it[0] == "range" and isinstance(gen.target, ast.Name):
            out = []
            for i in range(it[1]):
                env2 = dict(env)
                env2[gen.target.id] = ("const", i)
                out.append(self.ev(e.elt, env2))
            return ("list", out)
        base = self.as_set(it)
        tname = gen.target.id if isinstance(gen.target, ast.Name) else None
        if tname is None:
            raise AnalysisError(f"setalg: comprehension target {unparse(e)}")
        t = base
        for cond in gen.ifs:
            t = self.filter(t, cond, tname, env)
        # element expression: identity, or conditional rename  (k if k not in KEYS else M[k])
        elt = e.elt
        if isinstance(elt, ast.Name) and elt.id == tname:
            return t
        if isinstance(elt, ast.IfExp):
            m = self.rename_form(elt, tname, env)
            if m is not None:
                return ("image", m, t)
        raise AnalysisError(f"setalg: comprehension element {unparse(elt)}")

    def rename_form(self, elt: ast.IfExp, tname: str, env) -> Optional[Tuple]:
        """(k if k not in KEYS else M[k])  or  (M[k] if k in KEYS else k)"""
        test, body, orelse = elt.test, elt.body, elt.orelse
        if not (isinstance(test, ast.Compare) and len(test.ops) == 1 and isinstance(test.left, ast.Name) and test.left.id == tname):
            return None
        keys = self.ev(test.comparators[0], env)
        if isinstance(test.ops[0], ast.NotIn):
            ident, mapped = body, orelse
        elif isinstance(test.ops[0], ast.In):
            ident, mapped = orelse, body
        else:
            return None
        if not (isinstance(ident, ast.Name) and ident.id == tname):
            return None
        if not (isinstance(mapped, ast.Subscript) and isinstance(mapped.slice, ast.Name) and mapped.slice.id == tname):
            return None
        mp = self.ev(mapped.value, env)
        if isinstance(mp, tuple) and mp[0] == "atom" and mp[1].startswith("F:"):
            mp = ("map", mp[1][2:], False)
        if not (isinstance(mp, tuple) and mp[0] == "map"):
            return None
        # the membership test must be on that map's keys
        if keys == ("mapkeys", mp):
            return mp
        return None

    def filter(self, t: Term, cond: ast.AST, tname: str, env) -> Term:
        if isinstance(cond, ast.Name) and cond.id == tname:
            return t  # `if k` (truthiness of a column name)
        if isinstance(cond, ast.Compare) and len(cond.ops) == 1 and isinstance(cond.left, ast.Name) and cond.left.id == tname:
            other = self.as_set(self.ev(cond.comparators[0], env))
            if isinstance(cond.ops[0], ast.In):
                return ("inter", t, other)
            if isinstance(cond.ops[0], ast.NotIn):
                return ("diff", t, other)
        raise AnalysisError(f"setalg: comprehension filter {unparse(cond)}")

    def ev_dictcomp(self, e: ast.DictComp, env):
        if len(e.generators) != 1:
            raise AnalysisError(f"setalg: dict comprehension {unparse(e)}")
        gen = e.generators[0]
        it = self.ev(gen.iter, env)
        # {k: op for (k, op) in self.ops.items() if k in using}
        if isinstance(it, tuple) and it[0] == "opitems" and it[2] == "items" and isinstance(gen.target, ast.Tuple):
            kname = gen.target.elts[0].id
            vname = gen.target.elts[1].id
            if not (isinstance(e.key, ast.Name) and e.key.id == kname and isinstance(e.value, ast.Name) and e.value.id == vname):
                raise AnalysisError(f"setalg: op dict comprehension {unparse(e)}")
            r = it[1]
            for cond in gen.ifs:
                if isinstance(cond, ast.Compare) and len(cond.ops) == 1 and isinstance(cond.left, ast.Name) and cond.left.id == kname \
                        and isinstance(cond.ops[0], ast.In):
                    s = self.as_set(self.ev(cond.comparators[0], env))
                    r = ("restrict", r, s)
                else:
                    raise AnalysisError(f"setalg: op filter {unparse(cond)}")
            return ("ops", r)
        # {v: k for k, v in self.F.items()}  (inverse map)
        if isinstance(it, tuple) and it[0] == "mapitems" and it[2] == "items" and isinstance(gen.target, ast.Tuple) and not gen.ifs:
            kname = gen.target.elts[0].id
            vname = gen.target.elts[1].id
            mp = it[1]
            if isinstance(e.key, ast.Name) and isinstance(e.value, ast.Name):
                if e.key.id == vname and e.value.id == kname:
                    return ("map", mp[1], not mp[2])
                if e.key.id == kname and e.value.id == vname:
                    return mp
        raise AnalysisError(f"setalg: dict comprehension {unparse(e)}")

    # ---------------- statements ----------------
    def run(self):
        env: Dict[str, Any] = {self.using: ("atom", "using")}
        self.block(self.func.body, env, [])
        return self.results

    def block(self, stmts: List[ast.stmt], env, conds) -> List[Tuple[Dict, List[str]]]:
        """returns the list of (env, conds) states that fall through"""
        states = [(env, conds)]
        for st in stmts:
            nxt = []
            for (en, cs) in states:
                nxt.extend(self.stmt(st, en, cs))
            states = nxt
            if not states:
                break
        return states

    def cond_kind(self, test: ast.AST, env):
        """('using_none', polarity) | ('opaque', text)"""
        if isinstance(test, ast.Compare) and len(test.ops) == 1 and isinstance(test.left, ast.Name) \
                and isinstance(test.comparators[0], ast.Constant) and test.comparators[0].value is None:
            v = env.get(test.left.id)
            if v == ("atom", "using"):
                return ("using_none", isinstance(test.ops[0], ast.Is))
        return ("opaque", unparse(test))

    def stmt(self, st: ast.stmt, env, conds):
        if isinstance(st, ast.Expr) and isinstance(st.value, ast.Constant):
            return [(env, conds)]  # docstring
        if isinstance(st, ast.Assign) and len(st.targets) == 1 and isinstance(st.targets[0], ast.Name):
            env2 = dict(env)
            env2[st.targets[0].id] = self.ev(st.value, env)
            return [(env2, conds)]
        if isinstance(st, ast.Return):
            self.results.append((conds, self.ev(st.value, env)))
            return []
        if isinstance(st, ast.If):
            kind = self.cond_kind(st.test, env)
            out = []
            if kind[0] == "using_none":
                # we analyse the case using is not None only
                is_none_branch = st.body if kind[1] else st.orelse
                other = st.orelse if kind[1] else st.body
                # the `using is None` arm: interpret with using := everything the node produces
                env_none = dict(env)
                out_none = []
                saved = self.results
                self.results = []
                try:
                    out_none = self.block(is_none_branch, self._with_using_all(env_none), conds + ["using is None"])
                except AnalysisError:
                    out_none = []
                none_results = self.results
                self.results = saved
                self.none_results = getattr(self, "none_results", []) + none_results
                out.extend(self.block(other, env, conds))
                # states falling out of the None arm continue (e.g. `if using is None: using = set(cols)`)
                out.extend([(e2, c2) for (e2, c2) in out_none])
                return out
            out.extend(self.block(st.body, env, conds + [kind[1]]))
            out.extend(self.block(st.orelse, env, conds + ["not(" + kind[1] + ")"]))
            return out
        if isinstance(st, ast.For):
            # for k, o in D.items(): o.get_column_names(X)      -> X |= opcols(D)
            it = self.ev(st.iter, env)
            if isinstance(it, tuple) and it[0] == "opitems" and len(st.body) == 1 and isinstance(st.body[0], ast.Expr) \
                    and isinstance(st.body[0].value, ast.Call):
                call = st.body[0].value
                if isinstance(call.func, ast.Attribute) and call.func.attr == "get_column_names" and len(call.args) == 1 \
                        and isinstance(call.args[0], ast.Name):
                    tgt_names = [n.id for n in ast.walk(st.target) if isinstance(n, ast.Name)]
                    if isinstance(call.func.value, ast.Name) and call.func.value.id in tgt_names:
                        x = call.args[0].id
                        env2 = dict(env)
                        env2[x] = U(self.as_set(env[x]), ("opcols", it[1]))
                        return [(env2, conds)]
            raise AnalysisError(f"setalg: unrecognised loop at line {st.lineno}")
        if isinstance(st, ast.Expr) and isinstance(st.value, ast.Call) and isinstance(st.value.func, ast.Attribute):
            call = st.value
            m = call.func.attr
            if isinstance(call.func.value, ast.Name) and call.func.value.id in env and m in ("update", "add"):
                x = call.func.value.id
                env2 = dict(env)
                if m == "update":
                    env2[x] = U(self.as_set(env[x]), *[self.as_set(self.ev(a, env)) for a in call.args])
                    return [(env2, conds)]
        if isinstance(st, ast.Pass):
            return [(env, conds)]
        raise AnalysisError(f"setalg: unrecognised statement `{unparse(st)[:60]}` at line {st.lineno}")

    def _with_using_all(self, env):
        env2 = dict(env)
        env2[self.using] = ("atom", "SELFCOLS")
        return env2


# ---------------------------------------------------------------------------------------------- evaluation
def evaluate(t: Any, val: Dict[str, Any]):
    """concrete evaluation of a term over witness tokens.  val: atoms -> set; 'ops' -> {key: set(cols)};
    'maps' -> {field: dict}"""
    k = t[0]
    if k == "atom":
        if t[1] not in val:
            raise AnalysisError(f"setalg: no valuation for atom {t[1]}")
        return set(val[t[1]])
    if k == "empty":
        return set()
    if k == "union":
        out = set()
        for x in t[1:]:
            out |= evaluate(x, val)
        return out
    if k == "inter":
        return evaluate(t[1], val) & evaluate(t[2], val)
    if k == "diff":
        return evaluate(t[1], val) - evaluate(t[2], val)
    if k in ("opkeys", "opcols"):
        ops = _restrict_ops(t[1], val)
        if k == "opkeys":
            return set(ops.keys())
        out = set()
        for cols in ops.values():
            out |= set(cols)
        return out
    if k == "image":
        mp = _map(t[1], val)
        return {mp.get(x, x) for x in evaluate(t[2], val)}
    if k == "mapkeys":
        return set(_map(t[1], val).keys())
    if k == "list":
        return [evaluate(x, val) for x in t[1]]
    raise AnalysisError(f"setalg: cannot evaluate {t!r}")


def _restrict_ops(r, val) -> Dict[str, set]:
    ops = val.get("ops", {})
    if r == ("all",):
        return dict(ops)
    if r[0] == "restrict":
        inner = _restrict_ops(r[1], val)
        keep = evaluate(r[2], val)
        return {k: v for k, v in inner.items() if k in keep}
    raise AnalysisError(f"setalg: ops restriction {r!r}")


def _map(m, val) -> Dict[str, str]:
    d = val.get("maps", {}).get(m[1], {})
    if m[2]:
        return {v: k for k, v in d.items()}
    return dict(d)


def show(t: Any) -> str:
    k = t[0]
    if k == "atom":
        return t[1]
    if k == "empty":
        return "∅"
    if k == "union":
        return "(" + " ∪ ".join(show(x) for x in t[1:]) + ")"
    if k == "inter":
        return f"({show(t[1])} ∩ {show(t[2])})"
    if k == "diff":
        return f"({show(t[1])} − {show(t[2])})"
    if k == "opkeys":
        return f"keys(ops{_show_r(t[1])})"
    if k == "opcols":
        return f"cols(ops{_show_r(t[1])})"
    if k == "image":
        return f"{'inv ' if t[1][2] else ''}{t[1][1]}[{show(t[2])}]"
    if k == "list":
        return "[" + ", ".join(show(x) for x in t[1]) + "]"
    return repr(t)


def _show_r(r):
    if r == ("all",):
        return ""
    return "|" + show(r[2])
