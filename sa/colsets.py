"""May-carry analysis of scratch columns in pandas frames (used by C08-S1, C15).

A *scratch column* is a column stored into a frame under a name that is not taken from the operator: a string
constant, a generated name (constant + counter), or a variable bound to one of those.  Declared names always come from
`op.*` (loop targets over operator fields, attribute reads), so they are never constants in an executor step.

State (edge-sensitive forward may-analysis over the statement CFG):
  cols[F]  : set of scratch symbols frame / dict variable F may carry
  key[X]   : what the key variable X may denote: ("const", s) | ("fresh",) | ("family", D) | ("all", D) | "declared" | "none"
Symbols:
  ("const", s)        column literally named s
  ("var", X, s)       column named by the current value of variable X (s = its constant, or "*" for a generated name)
  ("family", D)       the generated names registered in dict D (D[...] = X)
Kills:
  del F[K] / F = F.drop(K, axis=1)             the symbol K denotes
  for X in D.values(): del F[X]                the whole family D (zero iterations <=> the family is empty)
  F = E.loc[:, <names from op only>]           everything (explicit re-selection of declared columns)
  false edge of `K in F.columns`               ("const", K) in F
  edge on which X is None                      every ("var", X, _) (the store used a non-None X)
A frame built by a call not modelled here carries the union of what its frame arguments and receiver carry.
"""
from __future__ import annotations

import ast
from typing import Dict, FrozenSet, List, Optional, Set, Tuple

from .cfg import CFG, Node
from .index import unparse

State = Dict[Tuple[str, str], FrozenSet]
EMPTY: FrozenSet = frozenset()


def _left_spine_const(e: ast.AST) -> Optional[str]:
    while isinstance(e, ast.BinOp) and isinstance(e.op, ast.Add):
        e = e.left
    if isinstance(e, ast.Constant) and isinstance(e.value, str):
        return e.value
    if isinstance(e, ast.JoinedStr) and e.values and isinstance(e.values[0], ast.Constant):
        return str(e.values[0].value)
    return None


def _names(e: ast.AST) -> Set[str]:
    return {n.id for n in ast.walk(e) if isinstance(n, ast.Name)}


DECLARED_ONLY = {"op", "list", "set", "sorted", "tuple", "self"}


class ColSets:
    def __init__(self, cfg: CFG, fnode: ast.AST):
        self.cfg = cfg
        self.fnode = fnode
        # dicts that register generated names: D[...] = X
        self.families: Set[str] = set()
        for st in ast.walk(fnode):
            if isinstance(st, ast.Assign) and len(st.targets) == 1 and isinstance(st.targets[0], ast.Subscript) \
                    and isinstance(st.targets[0].value, ast.Name) and isinstance(st.value, ast.Name):
                self.families.add(st.targets[0].value.id)
        self.stores: List[Tuple[Node, str, object]] = []  # (node, frame var, symbol)
        self.state_in: Dict[int, State] = {cfg.entry: {}}
        self._solve()

    # ---------------- helpers ----------------
    @staticmethod
    def cols(st: State, v: str) -> FrozenSet:
        return st.get(("cols", v), EMPTY)

    @staticmethod
    def key(st: State, v: str) -> FrozenSet:
        return st.get(("key", v), EMPTY)

    def key_symbols(self, k: ast.AST, st: State) -> Set:
        """symbols a store under key expression k adds"""
        if isinstance(k, ast.Constant) and isinstance(k.value, str):
            return {("const", k.value)}
        if isinstance(k, ast.Name):
            out = set()
            for kind in self.key(st, k.id):
                if kind == "declared" or kind == "none":
                    continue
                if kind[0] == "const":
                    out.add(("var", k.id, kind[1]))
                elif kind[0] == "fresh":
                    out.add(("var", k.id, "*"))
                elif kind[0] in ("family", "all"):
                    out.add(("family", kind[1]))
            return out
        c = _left_spine_const(k)
        if c is not None and isinstance(k, (ast.BinOp, ast.JoinedStr)):
            return {("const", unparse(k))}
        return set()

    def kill_symbols(self, k: ast.AST, st: State, have: FrozenSet) -> FrozenSet:
        if isinstance(k, ast.Constant) and isinstance(k.value, str):
            return frozenset(s for s in have if not (s == ("const", k.value) or (s[0] == "var" and s[2] == k.value)))
        if isinstance(k, ast.Name):
            kinds = self.key(st, k.id)
            consts = {kd[1] for kd in kinds if isinstance(kd, tuple) and kd[0] == "const"}
            alls = {kd[1] for kd in kinds if isinstance(kd, tuple) and kd[0] == "all"}
            return frozenset(s for s in have if not (
                (s[0] == "var" and s[1] == k.id) or (s[0] == "const" and s[1] in consts) or (s[0] == "family" and s[1] in alls)))
        if isinstance(k, (ast.List, ast.Tuple)):
            for e in k.elts:
                have = self.kill_symbols(e, st, have)
            return have
        c = _left_spine_const(k)
        if c is not None:
            return frozenset(s for s in have if s != ("const", unparse(k)))
        return have

    def frame_cols(self, e: ast.AST, st: State, depth: int = 0) -> FrozenSet:
        """scratch symbols the value of e may carry"""
        if e is None or depth > 10:
            return EMPTY
        if isinstance(e, ast.Name):
            return self.cols(st, e.id)
        if isinstance(e, ast.Dict):
            out = set()
            for k in e.keys:
                if k is not None:
                    out |= self.key_symbols(k, st)
            return frozenset(out)
        if isinstance(e, (ast.List, ast.Tuple)):
            out = set()
            for x in e.elts:
                out |= self.frame_cols(x, st, depth + 1)
            return frozenset(out)
        if isinstance(e, ast.IfExp):
            return self.frame_cols(e.body, st, depth + 1) | self.frame_cols(e.orelse, st, depth + 1)
        if isinstance(e, ast.Subscript):
            base = e.value
            if isinstance(base, ast.Attribute) and base.attr in ("loc", "iloc"):
                have = self.frame_cols(base.value, st, depth + 1)
                sl = e.slice
                if isinstance(sl, ast.Tuple) and len(sl.elts) == 2:
                    sel = sl.elts[1]
                    if not (isinstance(sel, ast.Slice)) and _names(sel) and _names(sel) <= DECLARED_ONLY:
                        return EMPTY
                return have
            have = self.frame_cols(base, st, depth + 1)
            if _names(e.slice) and _names(e.slice) <= DECLARED_ONLY and not isinstance(e.slice, ast.Constant):
                return EMPTY
            return have
        if isinstance(e, ast.Call):
            fn = e.func
            out: Set = set()
            if isinstance(fn, ast.Attribute):
                recv = self.frame_cols(fn.value, st, depth + 1)
                if fn.attr == "drop":
                    kw = {k.arg: k.value for k in e.keywords}
                    axis1 = ("columns" in kw) or (isinstance(kw.get("axis"), ast.Constant) and kw["axis"].value == 1) \
                        or (len(e.args) > 1 and isinstance(e.args[1], ast.Constant) and e.args[1].value == 1)
                    target = kw.get("columns") or (e.args[0] if e.args else kw.get("labels"))
                    if axis1 and target is not None:
                        return self.kill_symbols(target, st, recv)
                    return recv
                out |= recv
            for a in list(e.args) + [k.value for k in e.keywords]:
                out |= self.frame_cols(a, st, depth + 1)
            return frozenset(out)
        return EMPTY

    def key_kind(self, e: ast.AST, st: State) -> FrozenSet:
        if isinstance(e, ast.Constant):
            if isinstance(e.value, str):
                return frozenset({("const", e.value)})
            if e.value is None:
                return frozenset({"none"})
            return frozenset({"declared"})
        if isinstance(e, ast.Name):
            return self.key(st, e.id) or frozenset({"declared"})
        if isinstance(e, (ast.BinOp, ast.JoinedStr)) and _left_spine_const(e) is not None:
            return frozenset({("fresh",)})
        if isinstance(e, ast.Subscript) and isinstance(e.value, ast.Name) and e.value.id in self.families:
            return frozenset({("family", e.value.id)})
        return frozenset({"declared"})

    # ---------------- transfer ----------------
    def transfer(self, node: Node, st_in: State) -> State:
        st = dict(st_in)
        s = node.stmt
        if s is None:
            return st
        if node.kind == "iter":
            it = s.iter
            kind = frozenset({"declared"})
            if isinstance(it, ast.Call) and isinstance(it.func, ast.Attribute) and it.func.attr in ("values", "keys") \
                    and isinstance(it.func.value, ast.Name) and it.func.value.id in self.families:
                kind = frozenset({("all", it.func.value.id)})
            for nm in _names(s.target):
                self._rebind(st, nm)
                st[("key", nm)] = kind
            return st
        if node.kind != "stmt":
            return st
        if isinstance(s, ast.Assign) and len(s.targets) == 1:
            t = s.targets[0]
            if isinstance(t, ast.Name):
                newcols = self.frame_cols(s.value, st)
                newkey = self.key_kind(s.value, st)
                self._rebind(st, t.id)
                st[("cols", t.id)] = newcols
                st[("key", t.id)] = newkey
            elif isinstance(t, ast.Tuple):
                for nm in _names(t):
                    self._rebind(st, nm)
                    st[("cols", nm)] = EMPTY
                    st[("key", nm)] = frozenset({"declared"})
            elif isinstance(t, ast.Subscript) and isinstance(t.value, ast.Name):
                f = t.value.id
                # registration of a generated name: D[k] = X
                if isinstance(s.value, ast.Name) and any(isinstance(kd, tuple) and kd[0] == "fresh" for kd in self.key(st, s.value.id)):
                    x = s.value.id
                    st[("key", x)] = frozenset({("family", f)})
                    for (ns, v), have in list(st.items()):
                        if ns == "cols":
                            st[(ns, v)] = frozenset(("family", f) if (sym[0] == "var" and sym[1] == x) else sym for sym in have)
                    return st
                syms = self.key_symbols(t.slice, st)
                if syms:
                    for sym in syms:
                        self.stores.append((node, f, sym))
                    st[("cols", f)] = self.cols(st, f) | frozenset(syms)
        elif isinstance(s, ast.Delete):
            for t in s.targets:
                if isinstance(t, ast.Subscript) and isinstance(t.value, ast.Name):
                    f = t.value.id
                    st[("cols", f)] = self.kill_symbols(t.slice, st, self.cols(st, f))
        elif isinstance(s, ast.Expr) and isinstance(s.value, ast.Call) and isinstance(s.value.func, ast.Attribute) \
                and s.value.func.attr == "drop" and isinstance(s.value.func.value, ast.Name):
            c = s.value
            if any(k.arg == "inplace" and isinstance(k.value, ast.Constant) and k.value.value is True for k in c.keywords):
                f = c.func.value.id
                st[("cols", f)] = self.frame_cols(c, st)
        return st

    def _rebind(self, st: State, x: str):
        """X is re-assigned: columns named 'by the value of X' keep their old name"""
        for (ns, v), have in list(st.items()):
            if ns == "cols" and any(sym[0] == "var" and sym[1] == x for sym in have):
                st[(ns, v)] = frozenset(("const", sym[2] if sym[2] != "*" else f"<generated name once held by {x}>")
                                        if (sym[0] == "var" and sym[1] == x) else sym for sym in have)

    def refine(self, node: Node, label, st: State) -> State:
        """edge-sensitive facts"""
        s = node.stmt
        if node.kind == "iter" and label is False:
            it = s.iter
            if isinstance(it, ast.Call) and isinstance(it.func, ast.Attribute) and it.func.attr in ("values", "keys") \
                    and isinstance(it.func.value, ast.Name) and it.func.value.id in self.families:
                d = it.func.value.id
                tv = [n for n in _names(s.target)]
                for b in s.body:  # unconditional statements of the body only
                    if isinstance(b, ast.Delete):
                        for t in b.targets:
                            if isinstance(t, ast.Subscript) and isinstance(t.value, ast.Name) and isinstance(t.slice, ast.Name) and t.slice.id in tv:
                                f = t.value.id
                                st = dict(st)
                                st[("cols", f)] = frozenset(sym for sym in self.cols(st, f) if sym != ("family", d))
            return st
        if node.kind != "test" or node.cond is None or label not in (True, False):
            return st
        c = node.cond
        neg = False
        while isinstance(c, ast.UnaryOp) and isinstance(c.op, ast.Not):
            c, neg = c.operand, not neg
        if isinstance(c, ast.Compare) and len(c.ops) == 1:
            op, l, r = c.ops[0], c.left, c.comparators[0]
            truth = (label is True) != neg
            # K in F.columns
            if isinstance(op, (ast.In, ast.NotIn)) and isinstance(l, ast.Constant) and isinstance(l.value, str) \
                    and isinstance(r, ast.Attribute) and r.attr == "columns" and isinstance(r.value, ast.Name):
                present = truth if isinstance(op, ast.In) else not truth
                if not present:
                    f = r.value.id
                    st = dict(st)
                    st[("cols", f)] = frozenset(sym for sym in self.cols(st, f)
                                                if not (sym == ("const", l.value) or (sym[0] == "var" and sym[2] == l.value)))
            # X is None / X is not None
            if isinstance(op, (ast.Is, ast.IsNot)) and isinstance(l, ast.Name) and isinstance(r, ast.Constant) and r.value is None:
                is_none = truth if isinstance(op, ast.Is) else not truth
                if is_none:
                    st = dict(st)
                    for (ns, v), have in list(st.items()):
                        if ns == "cols":
                            st[(ns, v)] = frozenset(sym for sym in have if not (sym[0] == "var" and sym[1] == l.id))
        return st

    def _solve(self):
        cfg = self.cfg
        out_seen: Dict[int, State] = {}
        work = [cfg.entry]
        it = 0
        while work:
            it += 1
            if it > 100000:
                break
            nid = work.pop()
            node = cfg.nodes[nid]
            st_out = self.transfer(node, self.state_in.get(nid, {}))
            if nid in out_seen and out_seen[nid] == st_out:
                continue
            out_seen[nid] = st_out
            for (sx, label) in node.succ:
                st_e = self.refine(node, label, st_out)
                cur = self.state_in.get(sx)
                if cur is None:
                    self.state_in[sx] = dict(st_e)
                    work.append(sx)
                else:
                    ch = False
                    for k, v in st_e.items():
                        nv = (cur.get(k, EMPTY) | v)
                        if nv != cur.get(k):
                            cur[k] = nv
                            ch = True
                    if ch:
                        work.append(sx)
        # stores are recorded during the fixpoint; de-duplicate
        seen = set()
        uniq = []
        for (n, f, sym) in self.stores:
            k = (n.id, f, sym)
            if k not in seen:
                seen.add(k)
                uniq.append((n, f, sym))
        self.stores = uniq

    def returned(self) -> List[Tuple[Node, FrozenSet]]:
        out = []
        for r in self.cfg.returns():
            if r.stmt.value is None:
                continue
            st = self.state_in.get(r.id, {})
            out.append((r, self.frame_cols(r.stmt.value, st)))
        return out


def show(sym) -> str:
    if sym[0] == "const":
        return repr(sym[1])
    if sym[0] == "var":
        return f"{sym[1]} (= {sym[2]!r})" if sym[2] != "*" else f"{sym[1]} (generated name)"
    return f"the generated names registered in {sym[1]}"
