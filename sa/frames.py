"""Index-clean typestate of pandas frames (E3 typestate propagation, used by C18 / C27 / C08).

Lattice per variable: 'C' (default RangeIndex guaranteed), 'D' (index may be anything), ('L', k) a list of frames of
kind k, None (not a frame / unknown).  Producers, cleaners and preservers are the pandas idioms the repository uses;
an unknown expression yields None and creates no obligation (no alarm on what cannot be followed).

Why it matters: the executor attaches computed columns *by position* (column-wise concat, column stores from another
frame, captured row positions).  pandas aligns by index label, so a frame with a non-default index silently
mis-attaches values.
"""
from __future__ import annotations

import ast
from typing import Any, Dict, List, Optional, Tuple

from .cfg import CFG, Node
from .index import dotted_name, unparse

Kind = Any

CLEAN_CALLS = {"clean_copy", "_eval_value_source", "DataFrame", "data_frame", "columns_to_frame_", "merge", "read_query",
               "to_pandas", "add_data_frame_columns_to_data_frame_", "concat_rows"}
DIRTYING_METHODS = {"dropna", "drop_duplicates", "query", "sample", "nlargest", "nsmallest", "agg", "aggregate", "apply",
                    "sum", "mean", "size", "count"}
PRESERVING_METHODS = {"rename", "copy", "head", "astype", "fillna", "assign", "round"}


def join(a: Kind, b: Kind) -> Kind:
    if a is None:
        return b
    if b is None:
        return a
    if isinstance(a, tuple) and isinstance(b, tuple):
        return ("L", join(a[1], b[1]))
    if isinstance(a, tuple) or isinstance(b, tuple):
        return a if isinstance(a, tuple) else b
    return "D" if "D" in (a, b) else "C"


def _kw(call: ast.Call, name: str):
    for k in call.keywords:
        if k.arg == name:
            return k.value
    return None


def _is_true(e) -> bool:
    return isinstance(e, ast.Constant) and e.value is True


class Obligation:
    def __init__(self, node: Node, expr: ast.AST, what: str, kinds):
        self.node = node
        self.expr = expr
        self.what = what
        self.kinds = kinds


class FrameState:
    def __init__(self, cfg: CFG, params_kind: Dict[str, Kind], helpers: Optional[Dict[str, ast.FunctionDef]] = None):
        self.cfg = cfg
        self.helpers = helpers or {}
        self.state_in: Dict[int, Dict[str, Kind]] = {cfg.entry: dict(params_kind)}
        self.obligations: List[Obligation] = []
        self._solve()
        self._collect()

    # ------------- expression kinds -------------
    def kind(self, e: ast.AST, st: Dict[str, Kind], depth: int = 0) -> Kind:
        if depth > 12 or e is None:
            return None
        if isinstance(e, ast.Name):
            return st.get(e.id)
        if isinstance(e, (ast.List, ast.Tuple)):
            k = None
            for x in e.elts:
                kx = self.kind(x, st, depth + 1)
                k = join(k, kx[1] if isinstance(kx, tuple) else kx)
            return ("L", k)
        if isinstance(e, ast.BinOp) and isinstance(e.op, ast.Add):
            a, b = self.kind(e.left, st, depth + 1), self.kind(e.right, st, depth + 1)
            if isinstance(a, tuple) or isinstance(b, tuple):
                ka = a[1] if isinstance(a, tuple) else None
                kb = b[1] if isinstance(b, tuple) else None
                return ("L", join(ka, kb))
            return None
        if isinstance(e, (ast.ListComp, ast.GeneratorExp)):
            gen = e.generators[0]
            st2 = dict(st)
            itk = self.kind(gen.iter, st, depth + 1)
            elem = itk[1] if isinstance(itk, tuple) else None
            # for k, v in frame.groupby(...): v is a sub-frame with the parent's (non-default) labels
            if isinstance(gen.iter, ast.Call) and isinstance(gen.iter.func, ast.Attribute) and gen.iter.func.attr == "groupby":
                elem = "D"
            for nm in [n.id for n in ast.walk(gen.target) if isinstance(n, ast.Name)]:
                st2[nm] = elem
            return ("L", self.kind(e.elt, st2, depth + 1))
        if isinstance(e, ast.Subscript) and isinstance(e.value, ast.Name) and e.value.id == "data_map":
            return "D"   # the caller's frame: any index
        if isinstance(e, ast.Attribute) and isinstance(e.value, ast.Name) and e.attr == "head" and e.value.id == "op":
            return "D"
        if isinstance(e, ast.Subscript):
            base = e.value
            # x.loc[rows, cols] / x.iloc[rows, cols]
            if isinstance(base, ast.Attribute) and base.attr in ("loc", "iloc"):
                fk = self.kind(base.value, st, depth + 1)
                if fk not in ("C", "D"):
                    return None
                sl = e.slice
                rows = sl.elts[0] if isinstance(sl, ast.Tuple) and sl.elts else sl
                if isinstance(rows, ast.Slice) and rows.lower is None and rows.upper is None and rows.step is None:
                    return fk
                if base.attr == "iloc" and isinstance(rows, ast.Call) and dotted_name(rows.func) == "range" and len(rows.args) == 1:
                    return fk  # a prefix of a default index is a default index
                return "D"
            bk = self.kind(base, st, depth + 1)
            if isinstance(bk, tuple):
                return bk[1]
            if bk in ("C", "D"):
                sl = e.slice
                if isinstance(sl, (ast.Compare, ast.BoolOp)) or (isinstance(sl, ast.Name) and sl.id in ("selection", "mask", "keep")):
                    return "D"
                return bk
            return None
        if isinstance(e, ast.Call):
            fn = e.func
            if isinstance(fn, ast.Name) and fn.id in self.helpers:
                return self._helper_kind(self.helpers[fn.id], e, st, depth)
            if isinstance(fn, ast.Attribute):
                m = fn.attr
                recv_k = self.kind(fn.value, st, depth + 1)
                if m == "reset_index":
                    if _is_true(_kw(e, "inplace")):
                        return None
                    return "C" if _is_true(_kw(e, "drop")) else "C"
                if m == "concat":
                    lst = e.args[0] if e.args else _kw(e, "objs")
                    axis = _kw(e, "axis")
                    ax = axis.value if isinstance(axis, ast.Constant) else 0
                    lk = self.kind(lst, st, depth + 1)
                    ek = lk[1] if isinstance(lk, tuple) else None
                    if ax == 1:
                        return "C" if ek == "C" else ("D" if ek == "D" else None)
                    return "C" if _is_true(_kw(e, "ignore_index")) else "D"
                if m in CLEAN_CALLS:
                    return "C"
                if m == "sort_values" and recv_k in ("C", "D"):
                    if _is_true(_kw(e, "inplace")):
                        return None
                    return "C" if _is_true(_kw(e, "ignore_index")) else "D"
                if recv_k in ("C", "D"):
                    if m in PRESERVING_METHODS:
                        return recv_k
                    if m == "drop":
                        axis = _kw(e, "axis")
                        if (isinstance(axis, ast.Constant) and axis.value == 1) or _kw(e, "columns") is not None:
                            return None if _is_true(_kw(e, "inplace")) else recv_k
                        return "D"
                    if m in DIRTYING_METHODS:
                        return "D"
            return None
        if isinstance(e, ast.IfExp):
            return join(self.kind(e.body, st, depth + 1), self.kind(e.orelse, st, depth + 1))
        return None

    def _helper_kind(self, fn: ast.FunctionDef, call: ast.Call, st, depth) -> Kind:
        params = [a.arg for a in fn.args.args]
        st2: Dict[str, Kind] = dict(st)
        for p, a in zip(params, call.args):
            st2[p] = self.kind(a, st, depth + 1)
        # straight-line interpretation of the helper's top-level assignments (helpers in the repo are straight-line + ifs)
        out = None

        def run(stmts, stx):
            nonlocal out
            for s in stmts:
                if isinstance(s, ast.Assign) and len(s.targets) == 1 and isinstance(s.targets[0], ast.Name):
                    stx[s.targets[0].id] = self.kind(s.value, stx, depth + 1)
                elif isinstance(s, ast.If):
                    a, b = dict(stx), dict(stx)
                    run(s.body, a)
                    run(s.orelse, b)
                    for k in set(a) | set(b):
                        stx[k] = join(a.get(k), b.get(k))
                elif isinstance(s, ast.Return) and s.value is not None:
                    out = join(out, self.kind(s.value, stx, depth + 1))
        run(fn.body, st2)
        return out

    # ------------- dataflow -------------
    def transfer(self, node: Node, st_in):
        st = dict(st_in)
        s = node.stmt
        if node.kind == "iter" and s is not None:
            itk = self.kind(s.iter, st)
            elem = itk[1] if isinstance(itk, tuple) else None
            for nm in [n.id for n in ast.walk(s.target) if isinstance(n, ast.Name)]:
                st[nm] = elem
            return st
        if node.kind != "stmt" or s is None:
            return st
        if isinstance(s, ast.Assign) and len(s.targets) == 1:
            t = s.targets[0]
            if isinstance(t, ast.Name):
                st[t.id] = self.kind(s.value, st)
            elif isinstance(t, ast.Subscript) and isinstance(t.value, ast.Name) and isinstance(st.get(t.value.id), tuple):
                st[t.value.id] = ("L", join(st[t.value.id][1], self.kind(s.value, st)))
        elif isinstance(s, ast.Expr) and isinstance(s.value, ast.Call):
            c = s.value
            if isinstance(c.func, ast.Attribute) and c.func.attr == "drop_indices" and c.args and isinstance(c.args[0], ast.Name):
                st[c.args[0].id] = "C"
            if isinstance(c.func, ast.Attribute) and c.func.attr == "reset_index" and _is_true(_kw(c, "inplace")) \
                    and isinstance(c.func.value, ast.Name):
                st[c.func.value.id] = "C"
            if isinstance(c.func, ast.Attribute) and c.func.attr == "sort_values" and _is_true(_kw(c, "inplace")) \
                    and isinstance(c.func.value, ast.Name) and not _is_true(_kw(c, "ignore_index")):
                st[c.func.value.id] = "D"
        return st

    def _solve(self):
        cfg = self.cfg
        out: Dict[int, Dict] = {}
        work = [cfg.entry]
        it = 0
        while work:
            it += 1
            if it > 50000:
                break
            nid = work.pop()
            node = cfg.nodes[nid]
            st_out = self.transfer(node, self.state_in.get(nid, {}))
            if nid in out and out[nid] == st_out:
                continue
            out[nid] = st_out
            for (sx, _l) in node.succ:
                cur = self.state_in.get(sx)
                if cur is None:
                    self.state_in[sx] = dict(st_out)
                    work.append(sx)
                else:
                    ch = False
                    for k, v in st_out.items():
                        nv = join(cur.get(k), v) if k in cur else v
                        if k not in cur or nv != cur[k]:
                            cur[k] = nv
                            ch = True
                    if ch:
                        work.append(sx)

    # ------------- obligations -------------
    def _collect(self):
        for node in self.cfg.stmt_nodes(("stmt", "return")):
            st = self.state_in.get(node.id, {})
            s = node.stmt
            if node.kind == "return" and s.value is not None:
                k = self.kind(s.value, st)
                if k in ("C", "D"):
                    self.obligations.append(Obligation(node, s.value, "returned frame", [k]))
            for c in ast.walk(s):
                if isinstance(c, ast.Call) and isinstance(c.func, ast.Attribute):
                    if c.func.attr == "concat":
                        axis = _kw(c, "axis")
                        if isinstance(axis, ast.Constant) and axis.value == 1:
                            lst = c.args[0] if c.args else _kw(c, "objs")
                            lk = self.kind(lst, st)
                            ek = lk[1] if isinstance(lk, tuple) else None
                            if ek in ("C", "D"):
                                self.obligations.append(Obligation(node, c, "column-wise concat operands", [ek]))
                    if c.func.attr == "add_data_frame_columns_to_data_frame_":
                        ks = [self.kind(a, st) for a in c.args]
                        if any(k in ("C", "D") for k in ks):
                            self.obligations.append(Obligation(node, c, "positional column attachment operands", [k for k in ks if k in ("C", "D")]))
            # position capture: X[...] = X.index
            if isinstance(s, ast.Assign) and isinstance(s.value, ast.Attribute) and s.value.attr == "index" and isinstance(s.value.value, ast.Name):
                k = st.get(s.value.value.id)
                if k in ("C", "D"):
                    self.obligations.append(Obligation(node, s, "row positions captured from the index", [k]))
