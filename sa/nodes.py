"""E8 sibling-field model of the operator nodes (shared by C01, C06, C07, C10, C11, C12, C26).

Everything is recovered from the source on every run:
  * the concrete ViewRepresentation subclasses and their node_name constants,
  * per node kind its evaluators (Pandas step, Polars step, SQL generator) through the dispatch tables,
  * the fields assigned in __init__ and the constructor parameters each depends on (E4),
  * S(C): fields assigned in __init__ that some evaluator reads ("semantic fields"),
  * the builder method that constructs the node and which builder parameter feeds which field.
The only frozen part is DERIVED / ADVISORY (one reason per row); each DERIVED row is re-confirmed
against the constructor's dependencies on every run.
"""
from __future__ import annotations

import ast
from typing import Dict, List, Optional, Set, Tuple

from . import cfg as cfgmod
from . import deps as depsmod
from .index import AnalysisError, ClassInfo, FuncInfo, Program, dotted_name, walk_no_nested

BASE_FIELDS = {"column_names", "sources", "key", "node_name"}

# field -> (carriers, reason).  A derived field is a function of its carriers; sibling methods need not
# mention it if they mention the carriers.  Confirmed each run: deps(field) subset-of deps(carriers).
DERIVED: Dict[str, Dict[str, Tuple[Tuple[str, ...], str]]] = {
    "ExtendNode": {
        "windowed_situation": (("ops", "partition_by", "order_by"),
                               "implied by the window functions used and by non-empty partition/order"),
        "ordered_windowed_situation": (("order_by",), "order_by non-empty"),
    },
    "SelectRowsNode": {
        "expr": (("ops",), "ops['expr']"),
        "decision_columns": (("ops",), "column references of ops['expr']"),
    },
    "RenameColumnsNode": {
        "reverse_mapping": (("column_remapping",), "inverse dict of column_remapping"),
        "new_columns": (("column_remapping",), "keys minus values"),
    },
    "MapColumnsNode": {
        "new_columns": (("column_remapping", "column_deletions"), "values minus keys"),
    },
    "TableDescription": {
        "table_name_was_set_by_user": (("table_name",), "table_name is None"),
    },
}

# field -> field it can stand in for (a lossless image, one reason each)
EQUIVALENT: Dict[str, Dict[str, Tuple[str, str]]] = {
    "SelectRowsNode": {"expr": ("ops", "ops is the one-entry dict {'expr': expr}; the constructor rejects any other size")},
}

# fields that evaluators may read but that do not define the pipeline's meaning (one reason each)
ADVISORY: Dict[str, Dict[str, str]] = {
    "TableDescription": {
        "head": "example data, documented as advisory in same_table_description_",
        "limit_was": "advisory record of how head was truncated",
        "sql_meta": "advisory database metadata",
        "nrows": "advisory row count of head",
    },
}


class NodeKind:
    def __init__(self, cls: ClassInfo):
        self.cls = cls
        self.name = cls.name
        self.node_name: Optional[str] = None
        self.init: Optional[FuncInfo] = cls.methods.get("__init__")
        self.init_fields: Dict[str, Set[str]] = {}       # field -> ctor params it depends on
        self.init_field_nodes: Dict[str, List[ast.AST]] = {}
        self.evaluators: Dict[str, FuncInfo] = {}         # 'pandas' / 'polars' / 'sql' -> function
        self.evaluator_reads: Dict[str, Set[str]] = {}
        self.builder: Optional[FuncInfo] = None
        self.builder_ctor_call: Optional[ast.Call] = None
        self.feeds: Dict[str, Set[str]] = {}              # builder param -> fields it feeds

    def semantic_fields(self) -> List[str]:
        reads: Set[str] = set()
        for r in self.evaluator_reads.values():
            reads |= r
        out = [f for f in self.init_fields if f in reads and f not in BASE_FIELDS
               and f not in ADVISORY.get(self.name, {})]
        return sorted(out)

    def core_fields(self) -> List[str]:
        """semantic fields minus derived ones: what every sibling method must carry"""
        d = DERIVED.get(self.name, {})
        return [f for f in self.semantic_fields() if f not in d]

    def method(self, name: str) -> Optional[FuncInfo]:
        return self.cls.methods.get(name)


class NodeModel:
    def __init__(self, program: Program):
        self.p = program
        self.base = program.cls("view_representations", "ViewRepresentation")
        self.kinds: Dict[str, NodeKind] = {}
        for c in program.subclasses(self.base):
            if c.module.name != "view_representations":
                continue
            self.kinds[c.name] = NodeKind(c)
        if len(self.kinds) < 13:
            raise AnalysisError(f"only {len(self.kinds)} operator node classes found, 13 confirmed on the pinned tree")
        for k in self.kinds.values():
            self._init_info(k)
        self.dispatch: Dict[str, Dict[str, str]] = {}
        self._evaluators()
        self._builders()

    # ---- constructor analysis ----
    def _init_info(self, k: NodeKind):
        if k.init is None:
            raise AnalysisError(f"{k.name} has no __init__")
        g = cfgmod.build(k.init.node)
        d = depsmod.Deps(g, k.init.params())
        params = set(k.init.params()) - {"self"}
        for n in g.stmt_nodes(("stmt",)):
            st = n.stmt
            targets = []
            if isinstance(st, ast.Assign):
                targets = st.targets
                val = st.value
            elif isinstance(st, ast.AnnAssign) and st.value is not None:
                targets = [st.target]
                val = st.value
            else:
                continue
            for t in targets:
                if isinstance(t, ast.Attribute) and isinstance(t.value, ast.Name) and t.value.id == "self":
                    roots = d.roots_at(n, val)
                    ps = {r.split(".")[0] for r in roots if r.split(".")[0] in params}
                    # a field initialised empty and filled through an out-parameter call
                    k.init_fields.setdefault(t.attr, set()).update(ps)
                    k.init_field_nodes.setdefault(t.attr, []).append(st)
        # out-parameter fills such as self.expr.get_column_names(self.decision_columns)
        for n in g.stmt_nodes(("stmt",)):
            for call in [c for c in ast.walk(n.stmt) if isinstance(c, ast.Call)]:
                if isinstance(call.func, ast.Attribute) and call.func.attr in depsmod.OUT_PARAM_CALLS:
                    for a in call.args:
                        dn = dotted_name(a)
                        if dn and dn.startswith("self.") and dn.count(".") == 1:
                            roots = d.roots_at(n, call.func.value)
                            ps = {r.split(".")[0] for r in roots if r.split(".")[0] in params}
                            k.init_fields.setdefault(dn[5:], set()).update(ps)
        # node_name constant
        for call in [c for c in ast.walk(k.init.node) if isinstance(c, ast.Call)]:
            if dotted_name(call.func) == "ViewRepresentation.__init__":
                for kw in call.keywords:
                    if kw.arg == "node_name" and isinstance(kw.value, ast.Constant):
                        k.node_name = kw.value.value
        if k.node_name is None:
            raise AnalysisError(f"{k.name}.__init__ does not pass a constant node_name to ViewRepresentation.__init__")

    def confirm_derived(self) -> List[Tuple[str, str, str]]:
        """returns (kind, field, problem) for every DERIVED row that is not a function of its carriers"""
        bad = []
        for kn, rows in DERIVED.items():
            k = self.kinds.get(kn)
            if k is None:
                raise AnalysisError(f"derived-field table names unknown node kind {kn}")
            for f, (carriers, _why) in rows.items():
                if f not in k.init_fields:
                    continue  # field vanished: nothing to exempt
                allowed: Set[str] = set()
                for c in carriers:
                    if c not in k.init_fields:
                        raise AnalysisError(f"derived-field table: carrier {kn}.{c} vanished")
                    allowed |= k.init_fields[c]
                extra = k.init_fields[f] - allowed
                if extra:
                    bad.append((kn, f, f"depends on constructor parameter(s) {sorted(extra)} that do not feed its carriers {carriers}"))
        return bad

    # ---- evaluators through the dispatch tables ----
    def _dispatch_table(self, module: str, cls: str) -> Dict[str, str]:
        init = self.p.method(module, cls, "__init__", inherited=False)
        for st in ast.walk(init.node):
            if isinstance(st, ast.Assign) and len(st.targets) == 1 and dotted_name(st.targets[0]) == "self._method_dispatch_table":
                if not isinstance(st.value, ast.Dict):
                    raise AnalysisError(f"{cls}._method_dispatch_table is not a dict literal")
                out = {}
                for kx, vx in zip(st.value.keys, st.value.values):
                    if not isinstance(kx, ast.Constant):
                        raise AnalysisError(f"{cls}._method_dispatch_table has a non-constant key")
                    dn = dotted_name(vx)
                    if not dn or not dn.startswith("self."):
                        raise AnalysisError(f"{cls}._method_dispatch_table[{kx.value}] is not a bound method")
                    out[kx.value] = dn[5:]
                return out
        raise AnalysisError(f"anchor vanished: {cls}._method_dispatch_table")

    def _evaluators(self):
        self.dispatch["pandas"] = self._dispatch_table("pandas_base", "PandasModelBase")
        self.dispatch["polars"] = self._dispatch_table("polars_model", "PolarsModel")
        pcls = self.p.cls("pandas_base", "PandasModelBase")
        qcls = self.p.cls("polars_model", "PolarsModel")
        sqlcls = self.p.cls("sql_model", "SQLModel")
        self.sql_dispatch: Dict[str, str] = {}
        for k in self.kinds.values():
            for be, c in (("pandas", pcls), ("polars", qcls)):
                mname = self.dispatch[be].get(k.node_name)
                if mname:
                    f = c.find_method(mname)
                    if f is not None:
                        k.evaluators[be] = f
            impl = k.cls.methods.get("to_near_sql_implementation_")
            if impl is not None:
                k.evaluator_reads["to_near_sql_implementation_"] = _attr_reads(impl.node, "self")
                for call in [c for c in ast.walk(impl.node) if isinstance(c, ast.Call)]:
                    dn = dotted_name(call.func)
                    if dn and dn.startswith("db_model.") and dn.endswith("_to_near_sql"):
                        mname = dn.split(".", 1)[1]
                        self.sql_dispatch[k.name] = mname
                        f = sqlcls.find_method(mname)
                        if f is not None:
                            k.evaluators["sql"] = f
            for be, f in k.evaluators.items():
                ps = [p for p in f.params() if p != "self"]
                if not ps:
                    raise AnalysisError(f"{f.where()} has no node parameter")
                k.evaluator_reads[be] = _attr_reads(f.node, ps[0])

    # ---- builders ----
    def _builders(self):
        for m in self.base.methods.values():
            for call in [c for c in walk_no_nested(m.node) if isinstance(c, ast.Call)]:
                if isinstance(call.func, ast.Name) and call.func.id in self.kinds:
                    k = self.kinds[call.func.id]
                    # prefer the builder that constructs the node from `self` (not a merged rebuild)
                    is_primary = any((kw.arg in ("source", "a") and isinstance(kw.value, ast.Name) and kw.value.id == "self")
                                     for kw in call.keywords) or any(
                        isinstance(a, ast.Name) and a.id == "self" for a in call.args)
                    if k.builder is None or is_primary:
                        if k.builder is not None and k.builder is not m and is_primary and k.builder_ctor_call is not None:
                            # two different builders construct the node from self: keep the *_parsed_ one
                            if not m.name.endswith("_parsed_") and k.builder.name.endswith("_parsed_"):
                                continue
                        k.builder = m
                        k.builder_ctor_call = call
        for k in self.kinds.values():
            if k.builder is None:
                continue
            b = k.builder
            g = cfgmod.build(b.node)
            d = depsmod.Deps(g, b.params())
            call = k.builder_ctor_call
            node = g.containing_node(call)
            bparams = set(b.params()) - {"self"}
            ctor_params = _bind_call(call, k.init, skip_self=True)
            for cparam, argexpr in ctor_params.items():
                roots = d.roots_at(node, argexpr)
                bps = {r.split(".")[0] for r in roots if r.split(".")[0] in bparams}
                for f, fps in k.init_fields.items():
                    if cparam in fps:
                        for bp in bps:
                            k.feeds.setdefault(bp, set()).add(f)


def feeds_for(model: "NodeModel", k: NodeKind, callee: FuncInfo) -> Dict[str, Set[str]]:
    """which fields of node kind k each parameter of `callee` feeds, where callee is k's primary builder,
    a public builder delegating to it (extend -> extend_parsed_), or (leaf nodes) the constructor"""
    if callee is k.builder:
        return k.feeds
    if callee is k.init:
        out: Dict[str, Set[str]] = {}
        for f, ps in k.init_fields.items():
            for pp in ps:
                out.setdefault(pp, set()).add(f)
        return out
    out = {}
    if k.builder is None:
        return out
    for call in [c for c in ast.walk(callee.node) if isinstance(c, ast.Call) and isinstance(c.func, ast.Attribute)
                 and c.func.attr == k.builder.name]:
        bm = bind_map(call, k.builder)
        g = cfgmod.build(callee.node)
        d = depsmod.Deps(g, callee.params())
        node = g.containing_node(call)
        for p2, arg in bm.items():
            roots = d.roots_at(node, arg)
            for p1 in callee.params():
                if p1 in roots:
                    out.setdefault(p1, set()).update(k.feeds.get(p2, set()))
    return out


def _attr_reads(fnode: ast.AST, receiver: str) -> Set[str]:
    out = set()
    for n in ast.walk(fnode):
        if isinstance(n, ast.Attribute) and isinstance(n.value, ast.Name) and n.value.id == receiver \
                and isinstance(n.ctx, ast.Load):
            out.add(n.attr)
    return out


def _bind_call(call: ast.Call, callee: FuncInfo, skip_self: bool = True) -> Dict[str, ast.AST]:
    """bind a call's arguments to the callee's parameter names; raises AnalysisError if it cannot bind"""
    problems = bind_problems(call, callee, skip_self)
    if problems:
        raise AnalysisError(f"call at line {call.lineno} does not bind to {callee.where()}: {problems}")
    return bind_map(call, callee, skip_self)


def bind_map(call: ast.Call, callee: FuncInfo, skip_self: bool = True) -> Dict[str, ast.AST]:
    a = callee.node.args
    pos = [x.arg for x in a.posonlyargs + a.args]
    if skip_self and pos and pos[0] in ("self", "cls"):
        pos = pos[1:]
    out: Dict[str, ast.AST] = {}
    for i, arg in enumerate(call.args):
        if isinstance(arg, ast.Starred):
            continue
        if i < len(pos):
            out[pos[i]] = arg
    for kw in call.keywords:
        if kw.arg is not None:
            out[kw.arg] = kw.value
    return out


def bind_problems(call: ast.Call, callee: FuncInfo, skip_self: bool = True) -> List[str]:
    """why a call cannot bind to the callee's signature (empty list = binds)"""
    a = callee.node.args
    pos = [x.arg for x in a.posonlyargs + a.args]
    posonly = {x.arg for x in a.posonlyargs}
    if skip_self and pos and pos[0] in ("self", "cls"):
        pos = pos[1:]
    kwonly = [x.arg for x in a.kwonlyargs]
    n_pos_defaults = len(a.defaults)
    required_pos = pos[: len(pos) - n_pos_defaults] if n_pos_defaults <= len(pos) else []
    required_kw = [x.arg for x, dflt in zip(a.kwonlyargs, a.kw_defaults) if dflt is None]
    problems = []
    has_star = any(isinstance(x, ast.Starred) for x in call.args)
    has_dstar = any(kw.arg is None for kw in call.keywords)
    npos = len([x for x in call.args if not isinstance(x, ast.Starred)])
    if npos > len(pos) and a.vararg is None:
        problems.append(f"{npos} positional arguments for {len(pos)} positional parameters")
    bound = set(pos[:npos])
    for kw in call.keywords:
        if kw.arg is None:
            continue
        if kw.arg in bound:
            problems.append(f"multiple values for '{kw.arg}'")
        elif (kw.arg in pos and kw.arg not in posonly) or kw.arg in kwonly:
            bound.add(kw.arg)
        elif a.kwarg is None:
            problems.append(f"unexpected keyword argument '{kw.arg}'")
    if not has_star and not has_dstar:
        for r in required_pos:
            if r not in bound:
                problems.append(f"missing required argument '{r}'")
    if not has_dstar:
        for r in required_kw:
            if r not in bound:
                problems.append(f"missing required keyword-only argument '{r}'")
    return problems
