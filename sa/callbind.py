"""E2 receiver-sensitive call resolution and signature binding over the whole package.

Only calls whose callee is certain are bound:
  (a) self.m(...) inside a class, m found by MRO (and every override in subclasses);
  (b) module functions: local names, imported names, data_algebra.<mod>.<f>(...);
  (c) explicit-base calls Class.m(self, ...);
  (d) constructor calls of package classes;
  (e) receivers that are operator nodes by construction: <x>.sources[i].m(...), new_sources[i].m(...)
      where m is a ViewRepresentation method;
  (f) db_model.<m>(...) inside view_representations (SQLModel hierarchy).
A call is reported only if it fails to bind against *all* candidate callees.
Third-party receivers (pandas, polars, numpy objects) are never resolved.
"""
from __future__ import annotations

import ast
from typing import Dict, List, Optional, Tuple

from .index import ClassInfo, FuncInfo, Program, dotted_name, walk_no_nested
from .nodes import bind_problems


class CallSite:
    def __init__(self, caller: FuncInfo, call: ast.Call, callees: List[FuncInfo], how: str, skip_self: bool):
        self.caller = caller
        self.call = call
        self.callees = callees
        self.how = how
        self.skip_self = skip_self

    def problems(self) -> Optional[List[str]]:
        """None if the call binds to at least one candidate; else the problems against the first"""
        allp = []
        for c in self.callees:
            p = bind_problems(self.call, c, self.skip_self)
            if not p:
                return None
            allp.append(p)
        return allp[0] if allp else None


def _is_static(f: FuncInfo) -> bool:
    for d in f.node.decorator_list:
        if dotted_name(d) in ("staticmethod",):
            return True
    return False


def _node_receiver(expr: ast.AST) -> bool:
    """<x>.sources[i] or new_sources[i]"""
    if isinstance(expr, ast.Subscript):
        v = expr.value
        if isinstance(v, ast.Attribute) and v.attr == "sources":
            return True
        if isinstance(v, ast.Name) and v.id in ("new_sources",):
            return True
    return False


def resolve_calls(p: Program) -> List[CallSite]:
    out: List[CallSite] = []
    vr = p.cls("view_representations", "ViewRepresentation")
    sqlm = p.cls("sql_model", "SQLModel")
    sql_classes = [sqlm] + p.subclasses(sqlm)
    for caller in p.all_functions():
        mod = caller.module
        cls = caller.cls or (caller.parent.cls if caller.parent is not None else None)
        for call in [c for c in walk_no_nested(caller.node) if isinstance(c, ast.Call)]:
            fn = call.func
            # (b) module function by plain or dotted name
            f = p.resolve_function_expr(mod, fn)
            if f is not None and not (isinstance(fn, ast.Name) and _shadowed(caller, fn.id)):
                out.append(CallSite(caller, call, [f], "module function", False))
                continue
            # (d) constructor
            c = p.resolve_class_expr(mod, fn)
            if c is not None:
                init = c.find_method("__init__")
                if init is not None:
                    out.append(CallSite(caller, call, [init], "constructor", True))
                continue
            if not isinstance(fn, ast.Attribute):
                continue
            # (c) explicit base call Class.m(self, ...)
            c = p.resolve_class_expr(mod, fn.value)
            if c is not None:
                m = c.find_method(fn.attr)
                if m is not None:
                    out.append(CallSite(caller, call, [m], "explicit class call", _is_static(m)))
                    # skip_self False: the explicit self is passed positionally
                    out[-1].skip_self = False if not _is_static(m) else False
                continue
            # (a) self.m(...)
            if isinstance(fn.value, ast.Name) and fn.value.id == "self" and cls is not None:
                m = cls.find_method(fn.attr)
                if m is None:
                    continue
                cands = [m]
                for sub in p.subclasses(cls):
                    if fn.attr in sub.methods:
                        cands.append(sub.methods[fn.attr])
                out.append(CallSite(caller, call, cands, "self method", True))
                continue
            # (e) operator-node receivers
            if _node_receiver(fn.value):
                m = vr.find_method(fn.attr)
                if m is not None:
                    cands = [m] + [s.methods[fn.attr] for s in p.subclasses(vr) if fn.attr in s.methods]
                    out.append(CallSite(caller, call, cands, "operator node method", True))
                continue
            # (f) db_model.<m> in view_representations
            if mod.name == "view_representations" and isinstance(fn.value, ast.Name) and fn.value.id == "db_model":
                cands = [c.methods[fn.attr] for c in sql_classes if fn.attr in c.methods]
                if cands:
                    out.append(CallSite(caller, call, cands, "db_model method", True))
                continue
    return out


def _shadowed(caller: FuncInfo, name: str) -> bool:
    """a local variable or parameter of the caller (or an enclosing function) shadows the module name"""
    f = caller
    while f is not None:
        if name in f.params():
            return True
        for n in walk_no_nested(f.node):
            if isinstance(n, ast.Name) and n.id == name and isinstance(n.ctx, ast.Store):
                return True
        f = f.parent
    return False


def unbindable(p: Program) -> Tuple[List[Tuple[CallSite, List[str]]], int]:
    sites = resolve_calls(p)
    bad = []
    for s in sites:
        pr = s.problems()
        if pr:
            bad.append((s, pr))
    return bad, len(sites)
